package main

// C01 intent mode: an abstract statement (what the caller means: parts per grammatical slot, in order, with
// aliases, the last value of single-valued options) is generated first; it is composed through the real fluent
// API - one call per part, repeated calls for conditions and single-valued options - and, independently of the
// library, written down as the canonical clause tree the statement reader of coq/Pg/Stmt.v must produce from
// the emitted text.  All leaves are distinct plain identifiers, so every part is recognisable.

import (
	"encoding/hex"
	"encoding/json"
	"fmt"
	"io"
	"math/rand"
	"strings"

	qrb "github.com/networkteam/qrb"
	"github.com/networkteam/qrb/builder"
	"verif/internal/dump"
)

type c01Case struct {
	Case
	Expect string `json:"expect"`
	Kind   string `json:"kind"`
	// compositions the unchanged library is known to misrender (recorded findings), injected on purpose
	Deviations []string `json:"deviations"`
}

type c01Gen struct {
	rng  *rand.Rand
	next int
	wide bool
	dev  []string
	// probability of injecting one of the recorded deviating compositions at each opportunity
	devRate float64
}

func (g *c01Gen) deviate(id string) bool {
	if g.rng.Float64() < g.devRate {
		g.dev = append(g.dev, id)
		return true
	}
	return false
}

func (g *c01Gen) id(prefix string) string { g.next++; return fmt.Sprintf("%s%d", prefix, g.next) }
func (g *c01Gen) n(k int) int {
	v := g.rng.Intn(k)
	if g.wide {
		v *= 1 + g.rng.Intn(6)
	}
	return v
}
func (g *c01Gen) chance(p float64) bool { return g.rng.Float64() < p }

func cs(s string) string                    { return "<" + s + ">" }
func cnode(label string, kids ...string) string {
	if len(kids) == 0 {
		return "(" + label + ")"
	}
	return "(" + label + " " + strings.Join(kids, " ") + ")"
}
func conj(l []string) []string {
	switch len(l) {
	case 0:
		return nil
	case 1:
		return []string{cs(l[0])}
	}
	return []string{cs("#AND(" + strings.Join(l, ", ") + ")")}
}

// a simple sub-select usable as FROM item / CTE body: SELECT c FROM t
func (g *c01Gen) simpleSelect() (builder.SelectBuilder, string, string, string) {
	c, t := g.id("sc"), g.id("st")
	b := qrb.Select(qrb.N(c)).From(qrb.N(t)).SelectBuilder
	prog := fmt.Sprintf("qrb.Select(N(%q)).From(N(%q))", c, t)
	text := "SELECT " + c + " FROM " + t
	canon := cnode("select", "(with)", cnode("branches", cnode("core", cnode("distinct", cs("F")), "(on)",
		cnode("targets", cnode("t", cs(c), cs(""))), cnode("FROM", cnode("group", cnode("item", cs(""), cs(""), cs(t), cs(""), "(cols)"))),
		"(WHERE)", "(GROUP BY)", "(HAVING)")), "(ops)", "(ORDER BY)", "(LIMIT)", "(OFFSET)", "(FOR)")
	return b, prog, text, canon
}

type fromRes struct {
	canon string // (item ...)
}

// one FROM item added to b (select); returns new builder, prog suffix and the expected item
func (g *c01Gen) fromItem(b builder.SelectBuilder) (builder.SelectBuilder, string, string) {
	var fb builder.FromSelectBuilder
	p := ""
	only, lateral, src := "", "", ""
	switch g.rng.Intn(5) {
	case 0:
		if g.deviate("D6-only-before-non-relation") {
			sb, sp, st, _ := g.simpleSelect()
			fb, p, only, src = b.FromOnly(sb), ".FromOnly("+sp+")", "ONLY", "( "+strings.Join(strings.Fields(st), " ")+" )"
			break
		}
		t := g.id("t")
		fb, p, only, src = b.FromOnly(qrb.N(t)), fmt.Sprintf(".FromOnly(N(%q))", t), "ONLY", t
	case 1:
		sb, sp, st, _ := g.simpleSelect()
		fb, p, lateral, src = b.FromLateral(sb), ".FromLateral("+sp+")", "LATERAL", "( "+strings.Join(strings.Fields(st), " ")+" )"
	case 2:
		sb, sp, st, _ := g.simpleSelect()
		fb, p, src = b.From(sb), ".From("+sp+")", "( "+strings.Join(strings.Fields(st), " ")+" )"
	default:
		t := g.id("t")
		fb, p, src = b.From(qrb.N(t)), fmt.Sprintf(".From(N(%q))", t), t
	}
	alias, cols := "", "(cols)"
	if g.chance(0.6) || strings.HasPrefix(src, "(") {
		// aliases given twice: the last one counts
		for k := 0; k < 1+g.rng.Intn(2); k++ {
			alias = g.id("a")
			fb, p = fb.As(alias), p+fmt.Sprintf(".As(%q)", alias)
		}
		if g.chance(0.3) {
			c1, c2 := g.id("ca"), g.id("ca")
			fb, p = fb.ColumnAliases(c1, c2), p+fmt.Sprintf(".ColumnAliases(%q, %q)", c1, c2)
			cols = cnode("cols", cs(c1+" , "+c2))
		}
	}
	return fb.SelectBuilder, p, cnode("item", cs(only), cs(lateral), cs(src), cs(alias), cols)
}

func (g *c01Gen) join(b builder.SelectBuilder) (builder.SelectBuilder, string, string) {
	kinds := []string{"JOIN", "LEFT JOIN", "RIGHT JOIN", "FULL JOIN", "CROSS JOIN", "JOIN LATERAL", "LEFT JOIN LATERAL", "CROSS JOIN LATERAL"}
	k := kinds[g.rng.Intn(len(kinds))]
	lateral := strings.HasSuffix(k, " LATERAL")
	label := strings.TrimSuffix(k, " LATERAL")
	var from builder.FromExp
	fp, src := "", ""
	if lateral && g.deviate("D6-lateral-before-relation") {
		t := g.id("jt")
		from, fp, src = qrb.N(t), fmt.Sprintf("N(%q)", t), t
	} else if lateral || g.chance(0.2) {
		sb, sp, st, _ := g.simpleSelect()
		from, fp, src = sb, sp, "( "+strings.Join(strings.Fields(st), " ")+" )"
	} else {
		t := g.id("jt")
		from, fp, src = qrb.N(t), fmt.Sprintf("N(%q)", t), t
	}
	var jb builder.JoinSelectBuilder
	p := ""
	switch k {
	case "JOIN":
		jb, p = b.Join(from), ".Join("+fp+")"
	case "LEFT JOIN":
		jb, p = b.LeftJoin(from), ".LeftJoin("+fp+")"
	case "RIGHT JOIN":
		jb, p = b.RightJoin(from), ".RightJoin("+fp+")"
	case "FULL JOIN":
		jb, p = b.FullJoin(from), ".FullJoin("+fp+")"
	case "CROSS JOIN":
		jb, p = b.CrossJoin(from), ".CrossJoin("+fp+")"
	case "JOIN LATERAL":
		jb, p = b.JoinLateral(from), ".JoinLateral("+fp+")"
	case "LEFT JOIN LATERAL":
		jb, p = b.LeftJoinLateral(from), ".LeftJoinLateral("+fp+")"
	default:
		jb, p = b.CrossJoinLateral(from), ".CrossJoinLateral("+fp+")"
	}
	alias := ""
	if g.chance(0.5) || strings.HasPrefix(src, "(") {
		alias = g.id("ja")
		jb, p = jb.As(alias), p+fmt.Sprintf(".As(%q)", alias)
	}
	lat := ""
	if lateral {
		lat = "LATERAL"
	}
	item := cnode("item", cs(""), cs(lat), cs(src), cs(alias), "(cols)")
	if label == "CROSS JOIN" {
		if g.deviate("D6-cross-join-with-qualifier") {
			c := g.id("on")
			return jb.On(qrb.N(c)), p + fmt.Sprintf(".On(N(%q))", c), cnode("join", cs(label), item, cnode("on", cs(c)))
		}
		return jb.SelectBuilder, p, cnode("join", cs(label), item, "(on)")
	}
	switch g.rng.Intn(3) {
	case 0:
		c := g.id("on")
		return jb.On(qrb.N(c)), p + fmt.Sprintf(".On(N(%q))", c), cnode("join", cs(label), item, cnode("on", cs(c)))
	case 1:
		c1, c2 := g.id("on"), g.id("on")
		return jb.On(qrb.N(c1), qrb.N(c2)), p + fmt.Sprintf(".On(N(%q), N(%q))", c1, c2),
			cnode("join", cs(label), item, cnode("on", cs("#AND("+c1+", "+c2+")")))
	default:
		c1, c2 := g.id("u"), g.id("u")
		return jb.Using(c1, c2), p + fmt.Sprintf(".Using(%q, %q)", c1, c2), cnode("join", cs(label), item, cnode("using", cs(c1), cs(c2)))
	}
}

// the core of one branch, composed onto b (which may carry CTEs or earlier branches)
func (g *c01Gen) core(start func(exps ...builder.Exp) builder.SelectSelectBuilder, startProg string) (builder.SelectBuilder, string, string) {
	// targets
	var targets []string
	nt := 1 + g.n(3)
	first := g.id("e")
	sb := start(qrb.N(first))
	p := startProg + fmt.Sprintf("(N(%q))", first)
	lastAlias := ""
	if g.chance(0.4) {
		lastAlias = g.id("x")
		sb, p = sb.As(lastAlias), p+fmt.Sprintf(".As(%q)", lastAlias)
	}
	targets = append(targets, cnode("t", cs(first), cs(lastAlias)))
	for i := 1; i < nt; i++ {
		// one call with one or two expressions; As names the last one
		e1 := g.id("e")
		if g.chance(0.3) {
			e2 := g.id("e")
			sb, p = sb.Select(qrb.N(e1), qrb.N(e2)), p+fmt.Sprintf(".Select(N(%q), N(%q))", e1, e2)
			targets = append(targets, cnode("t", cs(e1), cs("")))
			e1 = e2
		} else {
			sb, p = sb.Select(qrb.N(e1)), p+fmt.Sprintf(".Select(N(%q))", e1)
		}
		al := ""
		if g.chance(0.4) {
			// named twice: the last name counts
			for k := 0; k < 1+g.rng.Intn(2); k++ {
				al = g.id("x")
				sb, p = sb.As(al), p+fmt.Sprintf(".As(%q)", al)
			}
		}
		targets = append(targets, cnode("t", cs(e1), cs(al)))
	}
	b := sb.SelectBuilder
	distinct, on := "F", "(on)"
	switch g.rng.Intn(5) {
	case 0:
		b, p, distinct = sb.Distinct().SelectBuilder, p+".Distinct()", "T"
	case 1:
		d1, d2 := g.id("d"), g.id("d")
		b, p, distinct, on = sb.Distinct().On(qrb.N(d1), qrb.N(d2)), p+fmt.Sprintf(".Distinct().On(N(%q), N(%q))", d1, d2), "T", cnode("on", cs(d1), cs(d2))
	}
	// from
	var groups []string
	for i, k := 0, g.n(3); i < k; i++ {
		var it, pp string
		b, pp, it = g.fromItem(b)
		p += pp
		grp := []string{it}
		for j, kj := 0, g.n(3); j < kj; j++ {
			var jc string
			b, pp, jc = g.join(b)
			p += pp
			grp = append(grp, jc)
		}
		groups = append(groups, cnode("group", grp...))
	}
	// where
	var conds []string
	for i, k := 0, g.n(4); i < k; i++ {
		c := g.id("w")
		b, p = b.Where(qrb.N(c)), p+fmt.Sprintf(".Where(N(%q))", c)
		conds = append(conds, c)
	}
	// group by
	var ges []string
	gd := ""
	for i, k := 0, g.n(3); i < k; i++ {
		switch g.rng.Intn(6) {
		case 0:
			a, c := g.id("g"), g.id("g")
			b, p = b.GroupBy(qrb.N(a), qrb.N(c)).SelectBuilder, p+fmt.Sprintf(".GroupBy(N(%q), N(%q))", a, c)
			ges = append(ges, cnode("ge", cs(""), cnode("set", cs(a), cs(c))))
		case 1:
			b, p = b.GroupBy().Empty().SelectBuilder, p+".GroupBy().Empty()"
			ges = append(ges, cnode("ge", cs(""), "(set)"))
		case 2:
			// ROLLUP over two elements, and over (two-element set, element)
			a, c, d := g.id("g"), g.id("g"), g.id("g")
			if g.deviate("D4-typed-grouping-one-element") {
				b, p = b.GroupBy().Rollup(qrb.Exps(qrb.N(a))).SelectBuilder, p+fmt.Sprintf(".GroupBy().Rollup(Exps(N(%q)))", a)
				ges = append(ges, cnode("ge", cs("ROLLUP"), cs(a)))
			} else if g.chance(0.5) {
				b, p = b.GroupBy().Rollup(qrb.Exps(qrb.N(a), qrb.N(c))).SelectBuilder, p+fmt.Sprintf(".GroupBy().Rollup(Exps(N(%q), N(%q)))", a, c)
				ges = append(ges, cnode("ge", cs("ROLLUP"), cs(a), cs(c)))
			} else {
				b, p = b.GroupBy().Rollup(qrb.Exps(qrb.N(a), qrb.N(c)), qrb.Exps(qrb.N(d))).SelectBuilder, p+fmt.Sprintf(".GroupBy().Rollup(Exps(N(%q), N(%q)), Exps(N(%q)))", a, c, d)
				ges = append(ges, cnode("ge", cs("ROLLUP"), cnode("set", cs(a), cs(c)), cs(d)))
			}
		case 3:
			a, c, d := g.id("g"), g.id("g"), g.id("g")
			if g.chance(0.5) {
				b, p = b.GroupBy().Cube(qrb.Exps(qrb.N(a), qrb.N(c))).SelectBuilder, p+fmt.Sprintf(".GroupBy().Cube(Exps(N(%q), N(%q)))", a, c)
				ges = append(ges, cnode("ge", cs("CUBE"), cs(a), cs(c)))
			} else {
				b, p = b.GroupBy().GroupingSets(qrb.Exps(qrb.N(a), qrb.N(c)), qrb.Exps(qrb.N(d)), qrb.Exps()).SelectBuilder,
					p+fmt.Sprintf(".GroupBy().GroupingSets(Exps(N(%q), N(%q)), Exps(N(%q)), Exps())", a, c, d)
				ges = append(ges, cnode("ge", cs("GROUPING SETS"), cnode("set", cs(a), cs(c)), cs(d), "(set)"))
			}
		default:
			a := g.id("g")
			gb := b.GroupBy(qrb.N(a))
			p += fmt.Sprintf(".GroupBy(N(%q))", a)
			if g.chance(0.15) {
				gb, p, gd = gb.Distinct(), p+".Distinct()", "DISTINCT"
			}
			b = gb.SelectBuilder
			ges = append(ges, cnode("ge", cs(""), cs(a)))
		}
	}
	groupby := "(GROUP BY)"
	if len(ges) > 0 {
		groupby = cnode("GROUP BY", cnode("groupby", append([]string{cs(gd)}, ges...)...))
	}
	var hav []string
	for i, k := 0, g.n(3); i < k; i++ {
		c := g.id("h")
		b, p = b.Having(qrb.N(c)), p+fmt.Sprintf(".Having(N(%q))", c)
		hav = append(hav, c)
	}
	canon := cnode("core", cnode("distinct", cs(distinct)), on, cnode("targets", targets...), cnode("FROM", groups...),
		cnode("WHERE", conj(conds)...), groupby, cnode("HAVING", conj(hav)...))
	return b, p, canon
}

func (g *c01Gen) tail(b builder.SelectBuilder, p string) (builder.SelectBuilder, string, []string) {
	var obs []string
	for i, k := 0, g.n(3); i < k; i++ {
		e := g.id("o")
		ob := b.OrderBy(qrb.N(e))
		p += fmt.Sprintf(".OrderBy(N(%q))", e)
		dir, nulls := "", ""
		// direction / nulls given repeatedly and in any order: the last call of each kind counts
		for j, kj := 0, g.rng.Intn(5); j < kj; j++ {
			switch g.rng.Intn(4) {
			case 0:
				ob, p, dir = ob.Asc(), p+".Asc()", "ASC"
			case 1:
				ob, p, dir = ob.Desc(), p+".Desc()", "DESC"
			case 2:
				ob, p, nulls = ob.NullsFirst(), p+".NullsFirst()", "NULLS FIRST"
			default:
				ob, p, nulls = ob.NullsLast(), p+".NullsLast()", "NULLS LAST"
			}
		}
		b = ob.SelectBuilder
		obs = append(obs, cnode("o", cs(e), cs(dir), cs(nulls)))
	}
	limit, offset := "(LIMIT)", "(OFFSET)"
	for j, kj := 0, g.rng.Intn(3); j < kj; j++ {
		e := g.id("l")
		b, p, limit = b.Limit(qrb.N(e)), p+fmt.Sprintf(".Limit(N(%q))", e), cnode("LIMIT", cs(e))
	}
	for j, kj := 0, g.rng.Intn(3); j < kj; j++ {
		e := g.id("f")
		b, p, offset = b.Offset(qrb.N(e)), p+fmt.Sprintf(".Offset(N(%q))", e), cnode("OFFSET", cs(e))
	}
	lock := "(FOR)"
	for j, kj := 0, g.rng.Intn(3); j < kj; j++ {
		var fb builder.ForSelectBuilder
		st := ""
		switch g.rng.Intn(4) {
		case 0:
			fb, p, st = b.ForUpdate(), p+".ForUpdate()", "UPDATE"
		case 1:
			fb, p, st = b.ForNoKeyUpdate(), p+".ForNoKeyUpdate()", "NO KEY UPDATE"
		case 2:
			fb, p, st = b.ForShare(), p+".ForShare()", "SHARE"
		default:
			fb, p, st = b.ForKeyShare(), p+".ForKeyShare()", "KEY SHARE"
		}
		of, wait := "(of)", ""
		if g.chance(0.4) {
			t1, t2 := g.id("lt"), g.id("lt")
			fb, p, of = fb.Of(t1, t2), p+fmt.Sprintf(".Of(%q, %q)", t1, t2), cnode("of", cs(t1), cs(t2))
		}
		for k2, kk := 0, g.rng.Intn(3); k2 < kk; k2++ {
			if g.chance(0.5) {
				fb, p, wait = fb.Nowait(), p+".Nowait()", "NOWAIT"
			} else {
				fb, p, wait = fb.SkipLocked(), p+".SkipLocked()", "SKIP LOCKED"
			}
		}
		b = fb.SelectBuilder
		lock = cnode("FOR", cnode("lock", cs(st), of, cs(wait)))
	}
	return b, p, []string{cnode("ORDER BY", obs...), limit, offset, lock}
}

// WITH prefix: returns the builder, prog and the expected (with ...) node
func (g *c01Gen) with() (*builder.WithBuilder, string, string) {
	k := g.n(3)
	if k == 0 {
		return nil, "", "(with)"
	}
	var wb builder.WithBuilder
	p := ""
	anyRec := false
	var ctes []string
	for i := 0; i < k; i++ {
		name := g.id("w")
		var ww builder.WithWithBuilder
		rec := g.chance(0.25)
		anyRec = anyRec || rec
		if i == 0 {
			if rec {
				ww, p = qrb.WithRecursive(name), fmt.Sprintf("qrb.WithRecursive(%q)", name)
			} else {
				ww, p = qrb.With(name), fmt.Sprintf("qrb.With(%q)", name)
			}
		} else if rec {
			ww, p = wb.WithRecursive(name), p+fmt.Sprintf(".WithRecursive(%q)", name)
		} else {
			ww, p = wb.With(name), p+fmt.Sprintf(".With(%q)", name)
		}
		cols := "(cols)"
		if g.chance(0.3) {
			c1, c2 := g.id("wc"), g.id("wc")
			ww, p, cols = ww.ColumnNames(c1, c2), p+fmt.Sprintf(".ColumnNames(%q, %q)", c1, c2), cnode("cols", cs(c1), cs(c2))
		}
		sb, sp, _, scanon := g.simpleSelect()
		mat := ""
		switch g.rng.Intn(4) {
		case 0:
			wb, p, mat = ww.AsMaterialized(sb), p+".AsMaterialized("+sp+")", "MATERIALIZED"
		case 1:
			wb, p, mat = ww.AsNotMaterialized(sb), p+".AsNotMaterialized("+sp+")", "NOT MATERIALIZED"
		default:
			wb, p = ww.As(sb), p+".As("+sp+")"
		}
		ctes = append(ctes, cnode("cte", cs(name), cols, cs(mat), scanon, "(search)"))
	}
	r := ""
	if anyRec {
		r = "RECURSIVE"
	}
	return &wb, p, cnode("with", append([]string{cs(r)}, ctes...)...)
}

// (with <R> cte...) + (with <R'> cte'...)
func mergeWith(a, b string) string {
	if a == "(with)" {
		return b
	}
	if b == "(with)" {
		return a
	}
	split := func(s string) (bool, string) {
		s = strings.TrimSuffix(strings.TrimPrefix(s, "(with "), ")")
		if strings.HasPrefix(s, "<RECURSIVE> ") {
			return true, strings.TrimPrefix(s, "<RECURSIVE> ")
		}
		return false, strings.TrimPrefix(s, "<> ")
	}
	ra, ca := split(a)
	rb, cb := split(b)
	r := ""
	if ra || rb {
		r = "RECURSIVE"
	}
	return "(with " + cs(r) + " " + ca + " " + cb + ")"
}

func (g *c01Gen) selectStmt() (builder.SQLWriter, string, string) {
	wb, wp, wcanon := g.with()
	start := func(exps ...builder.Exp) builder.SelectSelectBuilder { return qrb.Select(exps...) }
	sp := "qrb.Select"
	if wb != nil {
		start, sp = wb.Select, wp+".Select"
	}
	b, p, c := g.core(start, sp)
	cores := []string{c}
	var ops []string
	for i, k := 0, g.n(3); i < k; i++ {
		if g.deviate("D5-setop-branch-tail") {
			// ORDER BY / LIMIT composed on a branch that is then combined: the caller's part of that branch
			var tl []string
			b, p, tl = g.tail(b, p)
			if strings.Join(tl, " ") != "(ORDER BY) (LIMIT) (OFFSET) (FOR)" {
				cores[len(cores)-1] = strings.TrimSuffix(cores[len(cores)-1], ")") + " " + cnode("composed-but-not-emitted", tl...) + ")"
			} else {
				g.dev = g.dev[:len(g.dev)-1]
			}
		}
		var cb builder.CombinationBuilder
		op := ""
		switch g.rng.Intn(3) {
		case 0:
			cb, p, op = b.Union(), p+".Union()", "UNION"
		case 1:
			cb, p, op = b.Intersect(), p+".Intersect()", "INTERSECT"
		default:
			cb, p, op = b.Except(), p+".Except()", "EXCEPT"
		}
		if g.chance(0.4) {
			cb, p, op = cb.All(), p+".All()", op+" ALL"
		}
		b, p, c = g.core(cb.Select, p+".Select")
		cores = append(cores, c)
		ops = append(ops, cs(op))
	}
	b, p, tail := g.tail(b, p)
	// CTEs appended afterwards (AppendWith): they follow the ones already there; RECURSIVE if any of them is
	for k := 0; k < 2 && g.chance(0.25); k++ {
		wb2, wp2, wc2 := g.with()
		if wb2 == nil {
			continue
		}
		b, p = b.AppendWith(*wb2), p+".AppendWith("+wp2+")"
		wcanon = mergeWith(wcanon, wc2)
	}
	kids := append([]string{wcanon, cnode("branches", cores...), cnode("ops", ops...)}, tail...)
	return b, p, cnode("select", kids...)
}

func (g *c01Gen) returning(n int) ([]builder.Exp, []string, []string) {
	var es []builder.Exp
	var names, ps []string
	for i := 0; i < n; i++ {
		e := g.id("r")
		es, names, ps = append(es, qrb.N(e)), append(names, e), append(ps, fmt.Sprintf("N(%q)", e))
	}
	return es, names, ps
}

func (g *c01Gen) setItems(k int) (cols []string, vals []builder.Exp, canon []string) {
	for i := 0; i < k; i++ {
		c, v := g.id("col"), g.id("v")
		cols, vals, canon = append(cols, c), append(vals, qrb.N(v)), append(canon, cnode("set", cs(c), cs(v)))
	}
	return
}

func (g *c01Gen) insertStmt() (builder.SQLWriter, string, string) {
	wb, wp, wcanon := g.with()
	t := g.id("t")
	var b builder.InsertBuilder
	p := ""
	if wb != nil {
		b, p = wb.InsertInto(qrb.N(t)), wp+fmt.Sprintf(".InsertInto(N(%q))", t)
	} else {
		b, p = qrb.InsertInto(qrb.N(t)), fmt.Sprintf("qrb.InsertInto(N(%q))", t)
	}
	alias := ""
	for j, kj := 0, g.rng.Intn(3); j < kj; j++ {
		alias = g.id("ia")
		b, p = b.As(alias), p+fmt.Sprintf(".As(%q)", alias)
	}
	ncol := 1 + g.n(4)
	cols := cnode("cols", cs("-"))
	if g.chance(0.7) {
		var names []string
		for i := 0; i < ncol; i++ {
			names = append(names, g.id("c"))
		}
		b, p = b.ColumnNames(names[0], names[1:]...), p+fmt.Sprintf(".ColumnNames(%q)", names)
		var cc []string
		for _, n := range names {
			cc = append(cc, cs(n))
		}
		cols = cnode("cols", cc...)
	}
	body := ""
	switch g.rng.Intn(5) {
	case 0:
		b, p, body = b.DefaultValues(), p+".DefaultValues()", "(default)"
	case 1:
		sb, sp, _, scanon := g.simpleSelect()
		b, p, body = b.Query(sb), p+".Query("+sp+")", cnode("query", scanon)
	default:
		var rows []string
		for i, k := 0, 1+g.n(3); i < k; i++ {
			var vs []builder.Exp
			var row, ps []string
			for j := 0; j < ncol; j++ {
				v := g.id("v")
				vs, row, ps = append(vs, qrb.N(v)), append(row, cs(v)), append(ps, fmt.Sprintf("N(%q)", v))
			}
			b, p = b.Values(vs...), p+".Values("+strings.Join(ps, ", ")+")"
			rows = append(rows, cnode("row", row...))
		}
		body = cnode("values", rows...)
	}
	conflict := "(conflict)"
	if g.chance(0.5) {
		var oc builder.OnConflictInsertBuilder
		targets, twhere, constraint := "(targets)", "(WHERE)", "(constraint)"
		if g.chance(0.6) {
			c1, c2 := g.id("ct"), g.id("ct")
			oc, p, targets = b.OnConflict(qrb.N(c1), qrb.N(c2)), p+fmt.Sprintf(".OnConflict(N(%q), N(%q))", c1, c2), cnode("targets", cs(c1), cs(c2))
			var ws []string
			for i, k := 0, g.n(3); i < k; i++ {
				w := g.id("cw")
				oc, p = oc.Where(qrb.N(w)), p+fmt.Sprintf(".Where(N(%q))", w)
				ws = append(ws, w)
			}
			twhere = cnode("WHERE", conj(ws)...)
		} else {
			oc, p = b.OnConflict(), p+".OnConflict()"
			if g.chance(0.6) {
				cn := ""
				for j, kj := 0, 1+g.rng.Intn(2); j < kj; j++ {
					cn = g.id("pk")
					oc, p = oc.OnConstraint(cn), p+fmt.Sprintf(".OnConstraint(%q)", cn)
				}
				constraint = cnode("constraint", cs(cn))
			}
		}
		if g.chance(0.4) {
			b, p = oc.DoNothing(), p+".DoNothing()"
			conflict = cnode("conflict", targets, twhere, constraint, cnode("do", cs("NOTHING")))
		} else {
			du := oc.DoUpdate()
			p += ".DoUpdate()"
			cs_, vs, canon := g.setItems(1 + g.n(3))
			for i := range cs_ {
				du, p = du.Set(cs_[i], vs[i]), p+fmt.Sprintf(".Set(%q, ...)", cs_[i])
			}
			var ws []string
			for i, k := 0, g.n(3); i < k; i++ {
				w := g.id("uw")
				du, p = du.Where(qrb.N(w)), p+fmt.Sprintf(".Where(N(%q))", w)
				ws = append(ws, w)
			}
			b = du.InsertBuilder
			conflict = cnode("conflict", targets, twhere, constraint, cnode("do", cs("UPDATE"), cnode("set", canon...), cnode("WHERE", conj(ws)...)))
		}
	}
	ret := "(RETURNING)"
	if g.chance(0.5) {
		es, names, ps := g.returning(1 + g.n(3))
		rb := b.Returning(es[0], es[1:]...)
		p += ".Returning(" + strings.Join(ps, ", ") + ")"
		al := ""
		if g.chance(0.5) {
			al = g.id("ra")
			b, p = rb.As(al), p+fmt.Sprintf(".As(%q)", al)
		} else {
			b = rb.InsertBuilder
		}
		var ts []string
		for i, n := range names {
			a := ""
			if i == len(names)-1 {
				a = al
			}
			ts = append(ts, cnode("t", cs(n), cs(a)))
		}
		ret = cnode("RETURNING", ts...)
	}
	return b, p, cnode("insert", wcanon, cnode("table", cs(t), cs(alias)), cols, body, conflict, ret)
}

func (g *c01Gen) updateStmt() (builder.SQLWriter, string, string) {
	wb, wp, wcanon := g.with()
	t := g.id("t")
	var b builder.UpdateBuilder
	p := ""
	if wb != nil {
		b, p = wb.Update(qrb.N(t)), wp+fmt.Sprintf(".Update(N(%q))", t)
	} else {
		b, p = qrb.Update(qrb.N(t)), fmt.Sprintf("qrb.Update(N(%q))", t)
	}
	alias := ""
	for j, kj := 0, g.rng.Intn(3); j < kj; j++ {
		alias = g.id("ua")
		b, p = b.As(alias), p+fmt.Sprintf(".As(%q)", alias)
	}
	cols, vals, canon := g.setItems(1 + g.n(4))
	for i := range cols {
		b, p = b.Set(cols[i], vals[i]), p+fmt.Sprintf(".Set(%q, ...)", cols[i])
	}
	var groups []string
	for i, k := 0, g.n(3); i < k; i++ {
		ft := g.id("ft")
		fb := b.From(qrb.N(ft))
		p += fmt.Sprintf(".From(N(%q))", ft)
		al := ""
		if g.chance(0.5) {
			al = g.id("fa")
			fb, p = fb.As(al), p+fmt.Sprintf(".As(%q)", al)
		}
		b = fb.UpdateBuilder
		groups = append(groups, cnode("group", cnode("item", cs(""), cs(""), cs(ft), cs(al), "(cols)")))
	}
	var ws []string
	for i, k := 0, g.n(4); i < k; i++ {
		w := g.id("w")
		b, p = b.Where(qrb.N(w)), p+fmt.Sprintf(".Where(N(%q))", w)
		ws = append(ws, w)
	}
	var ts []string
	for i, k := 0, g.n(3); i < k; i++ {
		r := g.id("r")
		rb := b.Returning(qrb.N(r))
		p += fmt.Sprintf(".Returning(N(%q))", r)
		al := ""
		if g.chance(0.5) {
			al = g.id("ra")
			b, p = rb.As(al), p+fmt.Sprintf(".As(%q)", al)
		} else {
			b = rb.UpdateBuilder
		}
		ts = append(ts, cnode("t", cs(r), cs(al)))
	}
	return b, p, cnode("update", wcanon, cnode("table", cs(t), cs(alias)), cnode("set", canon...), cnode("FROM", groups...),
		cnode("WHERE", conj(ws)...), cnode("RETURNING", ts...))
}

func (g *c01Gen) deleteStmt() (builder.SQLWriter, string, string) {
	wb, wp, wcanon := g.with()
	t := g.id("t")
	var b builder.DeleteBuilder
	p := ""
	if wb != nil {
		b, p = wb.DeleteFrom(qrb.N(t)), wp+fmt.Sprintf(".DeleteFrom(N(%q))", t)
	} else {
		b, p = qrb.DeleteFrom(qrb.N(t)), fmt.Sprintf("qrb.DeleteFrom(N(%q))", t)
	}
	alias := ""
	for j, kj := 0, g.rng.Intn(3); j < kj; j++ {
		alias = g.id("da")
		b, p = b.As(alias), p+fmt.Sprintf(".As(%q)", alias)
	}
	var groups []string
	for i, k := 0, g.n(3); i < k; i++ {
		ft := g.id("ut")
		fb := b.Using(qrb.N(ft))
		p += fmt.Sprintf(".Using(N(%q))", ft)
		al := ""
		if g.chance(0.5) {
			al = g.id("ua")
			fb, p = fb.As(al), p+fmt.Sprintf(".As(%q)", al)
		}
		b = fb.DeleteBuilder
		groups = append(groups, cnode("group", cnode("item", cs(""), cs(""), cs(ft), cs(al), "(cols)")))
	}
	var ws []string
	for i, k := 0, g.n(4); i < k; i++ {
		w := g.id("w")
		b, p = b.Where(qrb.N(w)), p+fmt.Sprintf(".Where(N(%q))", w)
		ws = append(ws, w)
	}
	var ts []string
	for i, k := 0, g.n(3); i < k; i++ {
		r := g.id("r")
		rb := b.Returning(qrb.N(r))
		p += fmt.Sprintf(".Returning(N(%q))", r)
		al := ""
		if g.chance(0.5) {
			al = g.id("ra")
			b, p = rb.As(al), p+fmt.Sprintf(".As(%q)", al)
		} else {
			b = rb.DeleteBuilder
		}
		ts = append(ts, cnode("t", cs(r), cs(al)))
	}
	return b, p, cnode("delete", wcanon, cnode("table", cs(t), cs(alias)), cnode("USING", groups...),
		cnode("WHERE", conj(ws)...), cnode("RETURNING", ts...))
}

func runC01(out io.Writer, seed int64, n int) {
	enc := json.NewEncoder(out)
	d := &dump.Dumper{AnyID: anyID}
	g := &c01Gen{rng: rand.New(rand.NewSource(seed)), devRate: 0.02}
	for id := 0; id < n; id++ {
		g.next = 0
		g.dev = nil
		g.wide = g.rng.Intn(12) == 0
		var w builder.SQLWriter
		var prog, canon, kind string
		func() {
			defer func() {
				if r := recover(); r != nil {
					w, prog = nil, fmt.Sprint("generator panic: ", r)
				}
			}()
			switch g.rng.Intn(10) {
			case 0, 1, 2, 3, 4:
				w, prog, canon = g.selectStmt()
				kind = "select"
			case 5, 6, 7:
				w, prog, canon = g.insertStmt()
				kind = "insert"
			case 8:
				w, prog, canon = g.updateStmt()
				kind = "update"
			default:
				w, prog, canon = g.deleteStmt()
				kind = "delete"
			}
		}()
		if w == nil {
			enc.Encode(c01Case{Case: Case{ID: id, Gen: "intent", Type: "c01.panic", Prog: prog}, Kind: "panic"})
			continue
		}
		c := c01Case{Case: Case{ID: id, Gen: "intent", Type: "c01." + kind, Prog: prog}, Expect: canon, Kind: kind, Deviations: append([]string{}, g.dev...)}
		c.Dump = d.Value(w)
		c.Binds = []string{}
		for _, vp := range [][2]bool{{true, false}, {false, false}, {true, true}, {false, true}} {
			c.Renders = append(c.Renders, render(w, vp[0], vp[1], nil))
		}
		_ = hex.EncodeToString
		enc.Encode(c)
	}
}
