package main

// C05 / C10 / C11 modes.
//  c05: history trees - any live value is continued again and again after any number of earlier
//       continuations; after every call every live value is re-rendered and compared with its first rendering.
//  c10: every value rendered many times, interleaved with renderings of other values, from one and from
//       many goroutines.
//  c11: (built with -race) goroutines derive from and render shared values concurrently following plans
//       whose results were computed sequentially beforehand.

import (
	"encoding/json"
	"fmt"
	"io"
	"math/rand"
	"reflect"
	"sort"
	"strings"
	"sync"

	qrb "github.com/networkteam/qrb"
	"github.com/networkteam/qrb/builder"
	"verif/internal/gen"
)

type obs struct {
	SQL  string
	Args string
	Err  string
}

func observe(w builder.SQLWriter, named map[string]any) (o obs) {
	defer func() {
		if e := recover(); e != nil {
			o = obs{Err: fmt.Sprint("panic: ", e)}
		}
	}()
	sql, args, err := builder.Build(w).WithNamedArgs(named).ToSQL()
	o.SQL = sql
	ids := make([]int, len(args))
	for i, a := range args {
		ids[i] = anyID(a)
	}
	o.Args = fmt.Sprint(ids)
	if err != nil {
		o.Err = err.Error()
		if len(o.Err) > 22 && o.Err[:22] == "missing named argument" {
			o.Err = "missing named argument"
		}
	}
	return o
}

var allBinds = func() map[string]any {
	m := map[string]any{}
	for i, n := range []string{"a", "b", "id", "name", "", "weird name", "ü", "a'b", "$1"} {
		m[n] = pool[11+i]
	}
	return m
}()

type live struct {
	v     reflect.Value
	prog  string
	first obs
	rend  bool
}

type c05Result struct {
	ID         int      `json:"id"`
	Steps      int      `json:"steps"`
	Live       int      `json:"live"`
	Renderable int      `json:"renderable"`
	Forks      int      `json:"forks"` // values continued at least twice
	Methods    []string `json:"methods"`
	Violations []string `json:"violations"`
}

func runC05(out io.Writer, seed int64, n int, steps int) {
	enc := json.NewEncoder(out)
	g := gen.New(seed, pool)
	g.Hostile = 0.02
	sg := &gen.S{G: g}
	for id := 0; id < n; id++ {
		res := c05Result{ID: id, Violations: []string{}}
		var lives []*live
		cont := map[int]int{}
		add := func(v reflect.Value, prog string) {
			l := &live{v: v, prog: prog}
			if w, ok := v.Interface().(builder.SQLWriter); ok {
				l.rend = true
				l.first = observe(w, allBinds)
			}
			lives = append(lives, l)
		}
		// a few structured bases plus a type-directed one
		for k := 0; k < 3; k++ {
			func() {
				defer func() { recover() }()
				w, prog, _ := sg.Statement(1 + g.Rng.Intn(3))
				if w != nil {
					add(reflect.ValueOf(w), prog)
				}
			}()
		}
		ts := g.Types()
		if v, ok := g.Gen(ts[g.Rng.Intn(len(ts))], 3, ""); ok {
			add(v.V, v.Prog)
		}
		methods := map[string]bool{}
		for step := 0; step < steps && len(lives) > 0; step++ {
			// prefer recent values and values already continued (forks)
			idx := g.Rng.Intn(len(lives))
			if g.Rng.Intn(3) == 0 {
				idx = len(lives) - 1 - g.Rng.Intn(min(4, len(lives)))
			}
			parent := lives[idx]
			pl := g.PlanFor(parent.v.Type(), 2)
			if pl == nil {
				continue
			}
			nv, ok := pl.Apply(parent.v)
			if !ok {
				continue
			}
			res.Steps++
			cont[idx]++
			methods[pl.Name] = true
			add(nv, parent.prog+pl.Prog)
			// every live value still renders as when it was first obtained
			for _, l := range lives[:len(lives)-1] {
				if !l.rend {
					continue
				}
				now := observe(l.v.Interface().(builder.SQLWriter), allBinds)
				if now != l.first {
					res.Violations = append(res.Violations, fmt.Sprintf("value %s\n  first rendered as %q %s %q\n  after %s%s\n  it renders as %q %s %q",
						l.prog, l.first.SQL, l.first.Args, l.first.Err, parent.prog, pl.Prog, now.SQL, now.Args, now.Err))
					l.first = now
				}
			}
		}
		res.Live = len(lives)
		for _, l := range lives {
			if l.rend {
				res.Renderable++
			}
		}
		for _, c := range cont {
			if c >= 2 {
				res.Forks++
			}
		}
		for m := range methods {
			res.Methods = append(res.Methods, m)
		}
		enc.Encode(res)
	}
}

type c10Result struct {
	ID    int    `json:"id"`
	Prog  string `json:"prog"`
	First string `json:"first"` // the first rendering of this value in this process

	Renders    int      `json:"renders"`
	Violations []string `json:"violations"`
}

var c10KeyFamilies = [][]string{
	{"Name", "name", "NAME"}, {"id", "ID", "Id", "iD"}, {"a", "A", "b", "B"}, {"x", " x", "x "}, {"é", "É", "e\u0301"},
	{"col", "col_", "col_1", "col_10", "col_2"}, {"ab", "a_b", "aB", "Ab"}, {"ß", "ss", "SS"}, {"", " "},
}

var (
	permMu  sync.Mutex
	permRng *rand.Rand
)

func runC10(out io.Writer, seed int64, n int, reps int, reverse bool) {
	permRng = rand.New(rand.NewSource(seed + 7))
	enc := json.NewEncoder(out)
	g := gen.New(seed, pool)
	sg := &gen.S{G: g}
	type item struct {
		w       builder.SQLWriter
		rebuild func() builder.SQLWriter // map-based inputs: the same contents in a fresh map (new insertion / iteration order)
		prog    string
		ref     obs
	}
	var items []item
	for len(items) < n {
		func() {
			defer func() { recover() }()
			var w builder.SQLWriter
			var rebuild func() builder.SQLWriter
			var prog string
			switch len(items) % 3 {
			case 0: // map-based setters with many keys
				m := map[string]any{}
				k := 1 + g.Rng.Intn(64)
				for i := 0; i < k; i++ {
					m[fmt.Sprintf("col_%d_%c", g.Rng.Intn(1000), 'a'+rune(g.Rng.Intn(26)))] = pool[g.Rng.Intn(len(pool))]
				}
				// keys that an order other than sort.Strings' byte order may fail to separate: equal up to letter case,
				// up to surrounding blanks, up to Unicode case / normalisation, up to a common prefix, digits
				if g.Rng.Intn(2) == 0 {
					fam := c10KeyFamilies[g.Rng.Intn(len(c10KeyFamilies))]
					for _, key := range fam {
						m[key] = pool[g.Rng.Intn(len(pool))]
					}
				}
				keys := make([]string, 0, len(m))
				for key := range m {
					keys = append(keys, key)
				}
				sort.Strings(keys)
				ins := g.Rng.Intn(2) == 0
				mk := func() builder.SQLWriter {
					m2 := make(map[string]any, len(m))
					permMu.Lock()
					perm := permRng.Perm(len(keys))
					permMu.Unlock()
					for _, j := range perm {
						m2[keys[j]] = m[keys[j]]
					}
					if ins {
						return builder.InsertInto(builder.N("t")).SetMap(m2)
					}
					return builder.Update(builder.N("t")).SetMap(m2)
				}
				rebuild = mk
				w = mk()
				if ins {
					prog = fmt.Sprintf("InsertInto(t).SetMap(map with keys %q)", keys)
				} else {
					prog = fmt.Sprintf("Update(t).SetMap(map with keys %q)", keys)
				}
			default:
				w, prog, _ = sg.Statement(1 + g.Rng.Intn(4))
			}
			if w != nil {
				items = append(items, item{w, rebuild, prog, obs{}})
			}
		}()
	}
	// pairs that use one and the same string once as a name and once as a cast type: a verdict remembered for the
	// one must not leak into the other, whichever is rendered first
	for _, str := range gen.CrossKindStrings() {
		str := str
		items = append(items,
			item{qrb.Select(builder.N(str)), nil, fmt.Sprintf("Select(N(%q))", str), obs{}},
			item{qrb.Select(builder.N("x").Cast(str)), nil, fmt.Sprintf("Select(N(\"x\").Cast(%q))", str), obs{}})
	}
	// the first rendering of every value, in generation order or (second run of the check) in reverse order:
	// the outcome must not depend on what was rendered before
	for k := range items {
		i := k
		if reverse {
			i = len(items) - 1 - k
		}
		items[i].ref = observe(items[i].w, allBinds)
	}
	results := make([]c10Result, len(items))
	for i := range items {
		results[i] = c10Result{ID: i, Prog: items[i].prog, Violations: []string{},
			First: fmt.Sprintf("%q %s %q", items[i].ref.SQL, items[i].ref.Args, items[i].ref.Err)}
	}
	var mu sync.Mutex
	check := func(i int, where string) {
		w := items[i].w
		if items[i].rebuild != nil && where != "sequential" {
			w, where = items[i].rebuild(), where+", map rebuilt with the same contents"
		}
		o := observe(w, allBinds)
		mu.Lock()
		results[i].Renders++
		if o != items[i].ref {
			results[i].Violations = append(results[i].Violations, fmt.Sprintf("%s: %q %s %q  instead of  %q %s %q", where, o.SQL, o.Args, o.Err, items[i].ref.SQL, items[i].ref.Args, items[i].ref.Err))
		}
		mu.Unlock()
	}
	// one goroutine, interleaved with renderings of other values
	for r := 0; r < reps; r++ {
		for i := range items {
			check(i, "sequential")
			check((i*7+r)%len(items), "sequential-interleaved")
		}
	}
	// many goroutines
	var wg sync.WaitGroup
	for gi := 0; gi < 16; gi++ {
		wg.Add(1)
		go func(gi int) {
			defer wg.Done()
			for r := 0; r < reps/4+1; r++ {
				for i := range items {
					check((i+gi*13+r)%len(items), "concurrent")
				}
			}
		}(gi)
	}
	wg.Wait()
	for _, r := range results {
		enc.Encode(r)
	}
}

type c11Result struct {
	Goroutines int      `json:"goroutines"`
	Ops        int      `json:"ops"`
	Bases      int      `json:"bases"`
	Violations []string `json:"violations"`
}

// first-touch phase of C11: goroutines render values nobody in this process has rendered before (longer argument
// lists than ever, fresh derivations of shared JSON objects with spare capacity); the expected text is computed
// without rendering
func c11FirstTouch(seed int64) []string {
	const G = 16
	var bad []string
	var mu sync.Mutex
	report := func(s string) { mu.Lock(); bad = append(bad, s); mu.Unlock() }
	// shared JSON objects with 3, 5, 6, 7 properties (append leaves spare capacity at these sizes)
	var jsonBases []builder.JsonBuildObjectBuilder
	for _, k := range []int{3, 5, 6, 7} {
		o := builder.JsonBuildObject(false)
		for i := 0; i < k; i++ {
			o = o.Prop(fmt.Sprintf("p%d", i), builder.N(fmt.Sprintf("c%d", i)))
		}
		jsonBases = append(jsonBases, o)
	}
	// shared statements whose condition lists hold unset (nil) optional filters between real ones: never rendered before
	// the goroutines meet them, rendered and continued by all of them at once
	type nilBase struct {
		q    builder.SelectBuilder
		want string
	}
	var nilBases []nilBase
	for r := 0; r < 6; r++ {
		var q builder.SelectBuilder = qrb.Select(builder.N("x")).From(builder.N("t")).SelectBuilder
		var parts []string
		for i := 0; i < 9+r; i++ {
			if i%3 == 1 {
				q = q.Where(nil)
				continue
			}
			q = q.Where(builder.N(fmt.Sprintf("f%d", i)).Eq(builder.Int(i)))
			parts = append(parts, fmt.Sprintf("f%d = %d", i, i))
		}
		nilBases = append(nilBases, nilBase{q, "SELECT x FROM t WHERE " + strings.Join(parts, " AND ")})
	}
	var wg sync.WaitGroup
	start := make(chan struct{})
	for gi := 0; gi < G; gi++ {
		wg.Add(1)
		go func(gi int) {
			defer wg.Done()
			<-start
			for round := 0; round < 6; round++ {
				nb := nilBases[round]
				for rep := 0; rep < 20; rep++ {
					if (gi+rep)%2 == 0 {
						sql, _, err := builder.Build(nb.q).ToSQL()
						if err != nil || sql != nb.want {
							report(fmt.Sprintf("goroutine %d: shared statement with unset filters renders as %q (err %v), expected %q", gi, sql, err, nb.want))
						}
					} else {
						d := nb.q.Where(builder.N("own").Eq(builder.Int(gi)))
						sql, _, err := builder.Build(d).ToSQL()
						if exp := fmt.Sprintf("%s AND own = %d", nb.want, gi); err != nil || sql != exp {
							report(fmt.Sprintf("goroutine %d: continuation of a shared statement with unset filters renders as %q (err %v), expected %q", gi, sql, err, exp))
						}
					}
				}
				// IN list with more arguments than any earlier rendering of this goroutine
				k := 33 + 29*round + 3*gi + int(seed%7)
				vals := make([]int, k)
				want := make([]string, k)
				for i := range vals {
					vals[i] = 1
					want[i] = fmt.Sprintf("$%d", i+1)
				}
				q := qrb.Select(builder.N("x")).From(builder.N("t")).Where(builder.N("id").In(builder.Args(vals...)))
				sql, args, err := builder.Build(q).ToSQL()
				exp := "SELECT x FROM t WHERE id IN (" + strings.Join(want, ",") + ")"
				if err != nil || sql != exp || len(args) != k {
					report(fmt.Sprintf("goroutine %d: %d-argument IN list rendered as %q (%d args, err %v)", gi, k, sql, len(args), err))
				}
				// a private derivation of a shared JSON object
				for bi, base := range jsonBases {
					key := fmt.Sprintf("g%d_%d", gi, round)
					d := base.Prop(key, builder.Arg(1))
					sql, _, _ := builder.Build(qrb.Select(d)).ToSQL()
					if strings.Count(sql, "'"+key+"'") != 1 || strings.Count(sql, "'g") != 1 {
						report(fmt.Sprintf("goroutine %d: shared JSON object #%d refined with key %s renders as %q", gi, bi, key, sql))
					}
				}
			}
		}(gi)
	}
	close(start)
	wg.Wait()
	return bad
}

func runC11(out io.Writer, seed int64, nBases int, opsPer int) {
	firstTouch := c11FirstTouch(seed)
	g := gen.New(seed, pool)
	sg := &gen.S{G: g}
	type base struct {
		v    reflect.Value
		prog string
		ref  obs
	}
	var bases []base
	for len(bases) < nBases {
		func() {
			defer func() { recover() }()
			w, prog, _ := sg.Statement(1 + g.Rng.Intn(3))
			if w == nil {
				return
			}
			v := reflect.ValueOf(w)
			// give the shared value spare capacity histories: a few derivations first
			for k := g.Rng.Intn(4); k > 0; k-- {
				if pl := g.PlanFor(v.Type(), 1); pl != nil {
					if nv, ok := pl.Apply(v); ok {
						if _, isW := nv.Interface().(builder.SQLWriter); isW {
							v, prog = nv, prog+pl.Prog
						}
					}
				}
			}
			bases = append(bases, base{v, prog, observe(v.Interface().(builder.SQLWriter), allBinds)})
		}()
	}
	const G = 16
	type op struct {
		base int
		plan *gen.Plan
		want obs
		rend bool
	}
	plans := make([][]op, G)
	for gi := 0; gi < G; gi++ {
		for k := 0; k < opsPer; k++ {
			bi := g.Rng.Intn(len(bases))
			pl := g.PlanFor(bases[bi].v.Type(), 1)
			o := op{base: bi, plan: pl}
			if pl != nil {
				if nv, ok := pl.Apply(bases[bi].v); ok {
					if w, isW := nv.Interface().(builder.SQLWriter); isW {
						o.want, o.rend = observe(w, allBinds), true
					}
				} else {
					o.plan = nil
				}
			}
			plans[gi] = append(plans[gi], o)
		}
	}
	res := c11Result{Goroutines: G, Bases: len(bases), Violations: append([]string{}, firstTouch...)}
	var mu sync.Mutex
	var wg sync.WaitGroup
	start := make(chan struct{})
	for gi := 0; gi < G; gi++ {
		wg.Add(1)
		go func(gi int) {
			defer wg.Done()
			<-start
			for _, o := range plans[gi] {
				b := bases[o.base]
				got := observe(b.v.Interface().(builder.SQLWriter), allBinds)
				var bad []string
				if got != b.ref {
					bad = append(bad, fmt.Sprintf("shared value %s rendered as %q while other goroutines derive from it (alone: %q)", b.prog, got.SQL, b.ref.SQL))
				}
				if o.plan != nil {
					if nv, ok := o.plan.Apply(b.v); ok && o.rend {
						d := observe(nv.Interface().(builder.SQLWriter), allBinds)
						if d != o.want {
							bad = append(bad, fmt.Sprintf("derivation %s%s rendered as %q, alone it renders as %q", b.prog, o.plan.Prog, d.SQL, o.want.SQL))
						}
					}
				}
				mu.Lock()
				res.Ops++
				res.Violations = append(res.Violations, bad...)
				mu.Unlock()
			}
		}(gi)
	}
	close(start)
	wg.Wait()
	json.NewEncoder(out).Encode(res)
}
