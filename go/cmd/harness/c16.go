package main

// C16 mode: histories of set / conditional set / unset / batch / ApplyIf operations on the JSON
// object builder, run one by one, in batch form, through ApplyIf and as a select's JSON selection,
// for both flavours.  An independent ordered-map specification computes the expected entries.

import (
	"encoding/hex"
	"encoding/json"
	"fmt"
	"io"
	"math/rand"
	"strings"

	qrb "github.com/networkteam/qrb"
	"github.com/networkteam/qrb/builder"
	"github.com/networkteam/qrb/fn"
)

type jsonOp struct {
	Kind string // P, PI, U
	Cond bool
	Key  string
	Val  string
}

type c16Case struct {
	ID       int      `json:"id"`
	Jsonb    bool     `json:"jsonb"`
	Ops      string   `json:"ops"`       // s-expression list for the model, plain form
	OpsBatch string   `json:"ops_batch"` // the same history with maximal set runs in batch form
	OpsApply string   `json:"ops_apply"` // wrapped in ApplyIf(true, ...)
	Prog     string   `json:"prog"`
	SQL      []string `json:"sql"`  // hex: plain, batch, applyif, applyif-false(+plain), select
	Spec     string   `json:"spec"` // expected abstract state from the ordered-map specification
	Panic    string   `json:"panic,omitempty"`
}

var c16Keys = []string{"a", "", "k'\\", "b"}

func hx(s string) string { return "s" + hex.EncodeToString([]byte(s)) }

func tfs(b bool) string {
	if b {
		return "T"
	}
	return "F"
}

func (o jsonOp) sexp() string {
	switch o.Kind {
	case "P":
		return fmt.Sprintf("(P %s %s)", hx(o.Key), hx(o.Val))
	case "PI":
		return fmt.Sprintf("(PI %s %s %s)", tfs(o.Cond), hx(o.Key), hx(o.Val))
	}
	return fmt.Sprintf("(U %s)", hx(o.Key))
}

func applyPlain(j builder.JsonBuildObjectBuilder, ops []jsonOp) builder.JsonBuildObjectBuilder {
	for _, o := range ops {
		switch o.Kind {
		case "P":
			j = j.Prop(o.Key, qrb.N(o.Val))
		case "PI":
			j = j.PropIf(o.Cond, o.Key, qrb.N(o.Val))
		default:
			j = j.Unset(o.Key)
		}
	}
	return j
}

// applyBatch uses Start()...End() for every maximal run of set operations.
func applyBatch(j builder.JsonBuildObjectBuilder, ops []jsonOp) (builder.JsonBuildObjectBuilder, string) {
	var parts []string
	for i := 0; i < len(ops); {
		if ops[i].Kind == "U" {
			j = j.Unset(ops[i].Key)
			parts = append(parts, ops[i].sexp())
			i++
			continue
		}
		bb := j.Start()
		var inner []string
		for i < len(ops) && ops[i].Kind != "U" {
			if ops[i].Kind == "P" {
				bb = bb.Prop(ops[i].Key, qrb.N(ops[i].Val))
			} else {
				bb = bb.PropIf(ops[i].Cond, ops[i].Key, qrb.N(ops[i].Val))
			}
			inner = append(inner, ops[i].sexp())
			i++
		}
		j = bb.End()
		// the batch builder stays usable after End(); what it does later must not reach j
		bb.Prop("after-end", qrb.N("x"))
		for _, k := range c16Keys {
			bb.Prop(k, qrb.N("overwritten_after_end"))
		}
		parts = append(parts, "(B "+strings.Join(inner, " ")+")")
	}
	return j, strings.Join(parts, " ")
}

func specRun(jsonb bool, ops []jsonOp) string {
	type kv struct{ k, v string }
	var m []kv
	for _, o := range ops {
		if o.Kind == "PI" && !o.Cond {
			continue
		}
		idx := -1
		for i := range m {
			if m[i].k == o.Key {
				idx = i
			}
		}
		if o.Kind == "U" {
			if idx >= 0 {
				m = append(m[:idx:idx], m[idx+1:]...)
			}
			continue
		}
		if idx >= 0 {
			m[idx].v = o.Val
		} else {
			m = append(m, kv{o.Key, o.Val})
		}
	}
	var parts []string
	for _, e := range m {
		parts = append(parts, hex.EncodeToString([]byte(e.k))+"="+hex.EncodeToString([]byte(e.v)))
	}
	return tfs(jsonb) + ":" + strings.Join(parts, ";")
}

func sqlOf(w builder.SQLWriter) string {
	s, _, err := qrb.Build(w).ToSQL()
	if err != nil {
		return "ERR:" + err.Error()
	}
	return hex.EncodeToString([]byte(s))
}

func runC16Case(id int, jsonb bool, ops []jsonOp) (c c16Case) {
	c.ID, c.Jsonb = id, jsonb
	defer func() {
		if e := recover(); e != nil {
			c.Panic = fmt.Sprint(e)
		}
	}()
	base := fn.JsonBuildObject()
	if jsonb {
		base = fn.JsonbBuildObject()
	}
	var sx []string
	for _, o := range ops {
		sx = append(sx, o.sexp())
	}
	c.Ops = strings.Join(sx, " ")
	c.Prog = fmt.Sprintf("jsonb=%v %s", jsonb, c.Ops)
	plain := applyPlain(base, ops)
	batch, bs := applyBatch(base, ops)
	c.OpsBatch = bs
	calls := 0
	f := func(b builder.JsonBuildObjectBuilder) builder.JsonBuildObjectBuilder {
		calls++
		return applyPlain(b, ops)
	}
	viaApply := base.ApplyIf(true, f)
	c.OpsApply = "(AI T " + c.Ops + ")"
	notApplied := applyPlain(base.ApplyIf(false, f), ops)
	if calls != 1 {
		c.Panic = fmt.Sprintf("ApplyIf called the function %d times", calls)
	}
	sel := qrb.SelectJson(base).ApplySelectJson(f)
	// the base value must be unchanged by all of this
	c.SQL = []string{sqlOf(plain), sqlOf(batch), sqlOf(viaApply), sqlOf(notApplied), sqlOf(sel), sqlOf(base)}
	c.Spec = specRun(jsonb, ops)
	return c
}

func runC16(out io.Writer, seed int64, maxLen int, nRandom int) {
	enc := json.NewEncoder(out)
	id := 0
	var alphabet []jsonOp
	for _, k := range c16Keys[:3] {
		alphabet = append(alphabet, jsonOp{Kind: "P", Key: k}, jsonOp{Kind: "PI", Cond: true, Key: k},
			jsonOp{Kind: "PI", Cond: false, Key: k}, jsonOp{Kind: "U", Key: k})
	}
	var rec func(prefix []jsonOp)
	rec = func(prefix []jsonOp) {
		ops := make([]jsonOp, len(prefix))
		for i, o := range prefix {
			o.Val = fmt.Sprintf("v%d", i)
			ops[i] = o
		}
		for _, jb := range []bool{false, true} {
			enc.Encode(runC16Case(id, jb, ops))
			id++
		}
		if len(prefix) == maxLen {
			return
		}
		for _, o := range alphabet {
			rec(append(prefix[:len(prefix):len(prefix)], o))
		}
	}
	rec(nil)
	rng := rand.New(rand.NewSource(seed))
	for i := 0; i < nRandom; i++ {
		n := 1 + rng.Intn(40)
		ops := make([]jsonOp, n)
		for j := range ops {
			o := alphabet[rng.Intn(len(alphabet))]
			o.Key = c16Keys[rng.Intn(len(c16Keys))]
			if rng.Intn(6) == 0 {
				o.Key = fmt.Sprintf("key%d", rng.Intn(20))
			}
			o.Val = fmt.Sprintf("v%d", j)
			ops[j] = o
		}
		enc.Encode(runC16Case(id, rng.Intn(2) == 0, ops))
		id++
		if i%6 == 0 {
			// a long run of set operations (one batch): many new keys, now and then an earlier key set again -
			// sizes around the capacities a slice passes through (8, 16, 32, 64)
			m := 6 + rng.Intn(70)
			wide := make([]jsonOp, 0, m)
			fresh := 0
			for j := 0; j < m; j++ {
				o := jsonOp{Kind: "P", Val: fmt.Sprintf("w%d", j)}
				if rng.Intn(5) == 0 {
					o = jsonOp{Kind: "PI", Cond: rng.Intn(4) != 0, Val: fmt.Sprintf("w%d", j)}
				}
				if fresh > 0 && rng.Intn(4) == 0 {
					o.Key = fmt.Sprintf("n%d", rng.Intn(fresh))
				} else {
					o.Key = fmt.Sprintf("n%d", fresh)
					fresh++
				}
				wide = append(wide, o)
			}
			enc.Encode(runC16Case(id, rng.Intn(2) == 0, wide))
			id++
		}
	}
}
