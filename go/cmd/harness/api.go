package main

// api mode: histories of builder methods applied through reflection; every step is recorded as
// (receiver type, method, receiver dump, argument dumps, result dump) for comparison with the functional
// model of the API (coq/Model/Api.v).

import (
	"strconv"
	"encoding/hex"
	"encoding/json"
	"fmt"
	"io"
	"math/rand"
	"reflect"
	"sort"
	"strings"
	"unsafe"

	"github.com/networkteam/qrb"
	"github.com/networkteam/qrb/builder"
	"verif/internal/dump"
	"verif/internal/gen"
	"verif/internal/registry"
)

type apiStep struct {
	ID     int      `json:"id"`
	RType  string   `json:"rtype"`
	Method string   `json:"method"`
	Prog   string   `json:"prog"`
	Recv   string   `json:"recv"`
	Args   []string `json:"args"`
	Result string   `json:"result"` // dump, or "panic"
	Skip   string   `json:"skip,omitempty"`
	// rendering of the result (validation on, compact, no named arguments)
	Render *Render `json:"render,omitempty"`
	// receiver and arguments dumped again after the call: "" if unchanged, else what changed
	Mutated string `json:"mutated,omitempty"`
}

// apiParamType is the declared type of the j-th (variadic-flattened) argument of a method type with receiver.
func apiParamType(mt reflect.Type, j int) reflect.Type {
	n := mt.NumIn() - 1
	if mt.IsVariadic() && j >= n-1 {
		return mt.In(n).Elem()
	}
	if j < n {
		return mt.In(j + 1)
	}
	return nil
}

func valueOrNil(v reflect.Value) any {
	if !v.IsValid() || (v.Kind() == reflect.Interface && v.IsNil()) {
		return nil
	}
	return v.Interface()
}

func apiRender(v reflect.Value) *Render {
	w, ok := v.Interface().(builder.SQLWriter)
	if !ok {
		return nil
	}
	r := render1(w, true, false, nil)
	return &r
}

var apiFamilies = []string{"SelectBuilder", "SelectSelectBuilder", "SelectDistinctBuilder", "SelectJsonSelectBuilder",
	"FromSelectBuilder", "JoinSelectBuilder", "GroupyBySelectBuilder", "CombinationBuilder", "OrderBySelectBuilder",
	"ForSelectBuilder", "InsertBuilder", "OnConflictInsertBuilder", "OnConflictDoUpdateInsertBuilder", "ReturningInsertBuilder",
	"UpdateBuilder", "FromUpdateBuilder", "ReturningUpdateBuilder", "DeleteBuilder", "FromDeleteBuilder", "ReturningDeleteBuilder",
	"WithBuilder", "WithWithBuilder", "WithSearchBuilder", "WithSearchByBuilder"}

var withBuilderType = reflect.TypeOf(builder.WithBuilder{})

// field reads an unexported field of a struct value (on an addressable copy).
func field(v reflect.Value, name string) reflect.Value {
	c := reflect.New(v.Type()).Elem()
	c.Set(v)
	f := c.FieldByName(name)
	return reflect.NewAt(f.Type(), unsafe.Pointer(f.UnsafeAddr())).Elem()
}

// dumpWith encodes a WITH builder state: the list of WITH queries travels as the dump of w.Select(), a select
// builder carrying exactly these queries; the handle types add their own fields.
func dumpWith(d *dump.Dumper, v reflect.Value) (string, bool) {
	sel := func(w reflect.Value) string {
		return d.Value(w.Interface().(builder.WithBuilder).Select())
	}
	switch v.Type().Name() {
	case "WithBuilder":
		return "(wb " + sel(v) + ")", true
	case "WithWithBuilder":
		return "(wwb " + sel(field(v, "builder")) + ")", true
	case "WithSearchBuilder":
		return "(wsb " + sel(field(v, "builder")) + " " + hexs(field(v, "searchType").String()) + ")", true
	case "WithSearchByBuilder":
		by := field(v, "byColumnNames")
		var ps []string
		for i := 0; i < by.Len(); i++ {
			e := by.Index(i)
			if e.IsNil() {
				ps = append(ps, "nil")
			} else {
				ps = append(ps, d.Value(e.Interface()))
			}
		}
		return "(wsbb " + sel(field(v, "builder")) + " " + hexs(field(v, "searchType").String()) + " (" + strings.Join(ps, " ") + "))", true
	}
	return "", false
}

func isWithFamily(t reflect.Type) bool {
	return strings.HasSuffix(t.PkgPath(), "qrb/builder") && strings.HasPrefix(t.Name(), "With") && t.Kind() == reflect.Struct && inFamily(t)
}

func inFamily(t reflect.Type) bool {
	for _, n := range apiFamilies {
		if t.Name() == n && strings.HasSuffix(t.PkgPath(), "qrb/builder") {
			return true
		}
	}
	return false
}

var expIface = reflect.TypeOf((*builder.Exp)(nil)).Elem()
var writerIface = reflect.TypeOf((*builder.SQLWriter)(nil)).Elem()

func hexs(s string) string { return "s" + hex.EncodeToString([]byte(s)) }

func encodeArgs(d *dump.Dumper, mt reflect.Type, args []reflect.Value) ([]string, bool) {
	isExp := func(t reflect.Type) bool {
		return t.Kind() == reflect.Interface && t.Implements(writerIface) || t.Implements(writerIface)
	}
	dumpV := func(v reflect.Value) string {
		if v.Kind() == reflect.Interface && v.IsNil() {
			return "nil"
		}
		return d.Value(v.Interface())
	}
	var out []string
	n := mt.NumIn()
	idx := 0
	for j := 1; j < n; j++ {
		pt := mt.In(j)
		if mt.IsVariadic() && j == n-1 {
			rest := args[idx:]
			et := pt.Elem()
			switch {
			case isExp(et):
				var ps []string
				for _, a := range rest {
					ps = append(ps, dumpV(a))
				}
				out = append(out, "(exps "+strings.Join(ps, " ")+")")
			case et.Kind() == reflect.Interface && et.NumMethod() == 0:
				var ps []string
				for _, a := range rest {
					ps = append(ps, fmt.Sprintf("a%d", anyID(valueOrNil(a))))
				}
				out = append(out, "(anys "+strings.Join(ps, " ")+")")
			case et.Kind() == reflect.String:
				var ps []string
				for _, a := range rest {
					ps = append(ps, hexs(a.String()))
				}
				out = append(out, "(strs "+strings.Join(ps, " ")+")")
			case et.Kind() == reflect.Slice && isExp(et.Elem()):
				var sets []string
				for _, a := range rest {
					var ps []string
					for i := 0; i < a.Len(); i++ {
						ps = append(ps, dumpV(a.Index(i)))
					}
					sets = append(sets, "("+strings.Join(ps, " ")+")")
				}
				out = append(out, "(expss "+strings.Join(sets, " ")+")")
			default:
				return nil, false
			}
			return out, true
		}
		if idx >= len(args) {
			return nil, false
		}
		a := args[idx]
		idx++
		switch {
		case pt.Kind() == reflect.Interface && pt.NumMethod() == 0:
			out = append(out, fmt.Sprintf("(any a%d)", anyID(valueOrNil(a))))
		case pt.Kind() == reflect.Bool:
			out = append(out, "(bool "+map[bool]string{true: "T", false: "F"}[a.Bool()]+")")
		case pt.Kind() == reflect.Float64:
			// the text strconv gives for the value (the model's EFloat carries this text: formatting is an oracle)
			out = append(out, "(str "+hexs(strconv.FormatFloat(a.Float(), 'f', -1, 64))+")")
		case pt.Kind() == reflect.Int || pt.Kind() == reflect.Int32 || pt.Kind() == reflect.Int64:
			out = append(out, fmt.Sprintf("(int i%d)", a.Int()))
		case pt.Kind() == reflect.Slice && isExp(pt.Elem()):
			var ps []string
			for i := 0; i < a.Len(); i++ {
				ps = append(ps, dumpV(a.Index(i)))
			}
			out = append(out, "(exps "+strings.Join(ps, " ")+")")
		case pt == withBuilderType:
			out = append(out, "(with "+d.Value(a.Interface().(builder.WithBuilder).Select())+")")
		case isExp(pt):
			out = append(out, "(exp "+dumpV(a)+")")
		case pt.Kind() == reflect.String:
			out = append(out, "(str "+hexs(a.String())+")")
		case pt.Kind() == reflect.Map && pt.Key().Kind() == reflect.String:
			var keys []string
			for _, k := range a.MapKeys() {
				keys = append(keys, k.String())
			}
			sort.Strings(keys)
			var ps []string
			for _, k := range keys {
				ps = append(ps, fmt.Sprintf("(%s a%d)", hexs(k), anyID(a.MapIndex(reflect.ValueOf(k)).Interface())))
			}
			out = append(out, "(map "+strings.Join(ps, " ")+")")
		default:
			return nil, false
		}
	}
	return out, true
}

func runAPI(out io.Writer, seed int64, n int, depth int) {
	enc := json.NewEncoder(out)
	g := gen.New(seed, pool)
	g.Hostile = 0.02
	sg := &gen.S{G: g}
	d := &dump.Dumper{AnyID: anyID}
	id := 0
	safeDump := func(v reflect.Value) (s string, ok bool) {
		defer func() {
			if recover() != nil {
				ok = false
			}
		}()
		if isWithFamily(v.Type()) {
			return dumpWith(d, v)
		}
		// a CASE under construction travels as the value its End() gives
		switch b := v.Interface().(type) {
		case builder.CaseBuilder:
			return d.Value(b.End()), true
		case builder.CaseWhenBuilder:
			return d.Value(field(v, "builder").Interface().(builder.CaseBuilder).End()), true
		}
		return d.Value(v.Interface()), true
	}
	entries := []struct {
		name string
		fn   reflect.Value
	}{{"Select", reflect.ValueOf(qrb.Select)}, {"InsertInto", reflect.ValueOf(qrb.InsertInto)},
		{"Update", reflect.ValueOf(qrb.Update)}, {"DeleteFrom", reflect.ValueOf(qrb.DeleteFrom)},
		{"With", reflect.ValueOf(qrb.With)}, {"WithRecursive", reflect.ValueOf(qrb.WithRecursive)},
		{"SelectJson", reflect.ValueOf(qrb.SelectJson)}}
	// every expression constructor / method call made while arguments and statements are generated
	ctorBudget := n / 2
	var record func(name, owner string, typ reflect.Type, isMethod bool, args []reflect.Value, outv reflect.Value, prog string)
	g.OnCall = func(name, owner string, typ reflect.Type, isMethod bool, args []reflect.Value, outv reflect.Value, prog string) {
		if ctorBudget <= 0 || g.Rng.Intn(3) != 0 {
			return
		}
		ctorBudget--
		record(name, owner, typ, isMethod, args, outv, prog)
	}
	record = func(name, owner string, typ reflect.Type, isMethod bool, args []reflect.Value, outv reflect.Value, prog string) {
		pkg, bare, _ := strings.Cut(name, ".")
		step := apiStep{Prog: prog, Recv: "nil"}
		mt := typ
		margs := args
		if isMethod {
			if inFamily(typ.In(0)) {
				return // the statement builders are compared in the histories below
			}
			step.RType, step.Method = "meth", owner+"."+bare
			if owner == "JsonBuildObjectBuilderBuilder" || (owner == "JsonBuildObjectBuilder" && (bare == "Start" || bare == "ApplyIf")) {
				return // the batch form and ApplyIf (pointer / function values) stay with C16's and C19's own modes
			}
			rv, ok := safeDump(args[0])
			if !ok {
				return
			}
			step.Recv = rv
			margs = args[1:]
		} else {
			if pkg != "qrb" && pkg != "builder" {
				return // package fn: the wrappers are C18's (checked from the source)
			}
			step.RType, step.Method = "ctor", bare
			switch bare {
			case "Select", "SelectJson", "InsertInto", "Update", "DeleteFrom", "With", "WithRecursive":
				step.RType = "qrb" // the entry points of the statement model
			case "Build":
				return // Build is the render handle
			}
			ins := []reflect.Type{reflect.TypeOf(0)}
			for j := 0; j < typ.NumIn(); j++ {
				ins = append(ins, typ.In(j))
			}
			mt = reflect.FuncOf(ins, []reflect.Type{typ.Out(0)}, typ.IsVariadic())
		}
		ea, ok := encodeArgs(d, mt, margs)
		if !ok {
			return
		}
		res, ok := safeDump(outv)
		if !ok {
			return
		}
		step.ID, step.Args, step.Result = id, ea, res
		step.Render = apiRender(outv)
		if isMethod {
			if rv2, ok := safeDump(args[0]); ok && rv2 != step.Recv {
				step.Mutated = "receiver"
			}
		}
		if ea2, ok := encodeArgs(d, mt, margs); ok && strings.Join(ea2, " ") != strings.Join(ea, " ") {
			step.Mutated += " arguments"
		}
		id++
		enc.Encode(step)
	}
	// systematic part: every constructor and every operator / predicate method over a catalogue of operand shapes
	apiCatalogue(g, seed, n/4, record)
	for id < n {
		var cur reflect.Value
		prog := ""
		if g.Rng.Intn(10) < 4 {
			// a history that starts at a package-level entry point
			en := entries[g.Rng.Intn(len(entries))]
			ft := en.fn.Type()
			var args []reflect.Value
			var parts []string
			good := true
			for j := 0; j < ft.NumIn() && good; j++ {
				a, ok := g.Gen(ft.In(j), depth, "")
				if !ok {
					good = false
					break
				}
				if ft.IsVariadic() && j == ft.NumIn()-1 {
					for i := 0; i < a.V.Len(); i++ {
						args = append(args, a.V.Index(i))
					}
				} else {
					args = append(args, a.V)
				}
				parts = append(parts, a.Prog)
			}
			if !good {
				continue
			}
			step := apiStep{ID: id, RType: "qrb", Method: en.name, Prog: "qrb." + en.name + "(" + strings.Join(parts, ", ") + ")", Recv: "nil"}
			id++
			// encodeArgs expects a method type with the receiver first: prepend a dummy receiver slot
			ins := []reflect.Type{reflect.TypeOf(0)}
			for j := 0; j < ft.NumIn(); j++ {
				ins = append(ins, ft.In(j))
			}
			mt := reflect.FuncOf(ins, []reflect.Type{ft.Out(0)}, ft.IsVariadic())
			ea, ok2 := encodeArgs(d, mt, args)
			if !ok2 {
				step.Skip = "unsupported argument or receiver"
				enc.Encode(step)
				continue
			}
			step.Args = ea
			var nv reflect.Value
			okc := func() (ok bool) {
				defer func() {
					if recover() != nil {
						ok = false
					}
				}()
				nv = en.fn.Call(args)[0]
				return true
			}()
			if !okc {
				step.Result = "panic"
				enc.Encode(step)
				continue
			}
			res, ok3 := safeDump(nv)
			if !ok3 {
				step.Skip = "result cannot be dumped"
				enc.Encode(step)
				continue
			}
			step.Result = res
			step.Render = apiRender(nv)
			enc.Encode(step)
			cur, prog = nv, step.Prog
		} else {
			func() {
				defer func() { recover() }()
				w, p, _ := sg.Statement(1 + g.Rng.Intn(3))
				if w != nil {
					cur, prog = reflect.ValueOf(w), p
				}
			}()
		}
		if !cur.IsValid() || !inFamily(cur.Type()) {
			continue
		}
		for k := 0; k < 8 && id < n; k++ {
			pl := g.PlanFor(cur.Type(), depth)
			if pl == nil {
				break
			}
			meth := pl.Name[strings.IndexByte(pl.Name, '.')+1:]
			// now and then a nil interface is handed in: outside the hypotheses of the theorems, inside the model
			if pa := pl.Args(); len(pa) > 0 && g.Rng.Intn(20) == 0 {
				j := g.Rng.Intn(len(pa))
				if pa[j].Kind() == reflect.Interface || (pa[j].IsValid() && pa[j].Type().Implements(writerIface) && pl.Type().NumIn() > 1) {
					if pt := apiParamType(pl.Type(), j); pt != nil && pt.Kind() == reflect.Interface {
						pa[j] = reflect.Zero(pt)
						pl.Prog += " /* argument " + fmt.Sprint(j) + " replaced by nil */"
					}
				}
			}
			step := apiStep{ID: id, RType: cur.Type().Name(), Method: meth, Prog: prog + pl.Prog}
			id++
			recv, ok1 := safeDump(cur)
			args, ok2 := encodeArgs(d, pl.Type(), pl.Args())
			if !ok2 && (meth == "ApplyIf" || meth == "ApplySelectJson") {
				args, ok2 = encodeFuncArgs(d, safeDump, cur, meth, pl.Args())
			}
			if !ok1 || !ok2 {
				step.Skip = "unsupported argument or receiver"
				enc.Encode(step)
				break
			}
			step.Recv, step.Args = recv, args
			nv, ok := pl.Apply(cur)
			if !ok {
				step.Result = "panic"
				enc.Encode(step)
				break
			}
			if !inFamily(nv.Type()) {
				step.Skip = "result outside the builder family: " + nv.Type().String()
				enc.Encode(step)
				break
			}
			res, ok3 := safeDump(nv)
			if !ok3 {
				step.Skip = "result cannot be dumped"
				enc.Encode(step)
				break
			}
			step.Result = res
			step.Render = apiRender(nv)
			if recv2, ok := safeDump(cur); ok && recv2 != recv {
				step.Mutated = "receiver"
			}
			if args2, ok := encodeArgs(d, pl.Type(), pl.Args()); ok && strings.Join(args2, " ") != strings.Join(args, " ") {
				step.Mutated += " arguments"
			}
			enc.Encode(step)
			cur, prog = nv, prog+pl.Prog
		}
	}
}

// apiCatalogue applies the expression constructors of packages qrb / builder and the methods the catalogue values
// inherit or declare to a fixed catalogue of operand shapes: all one-operand calls, and a seeded sample (at most
// budget) of the two-operand ones.
func apiCatalogue(g *gen.Gen, seed int64, budget int, record func(name, owner string, typ reflect.Type, isMethod bool, args []reflect.Value, outv reflect.Value, prog string)) {
	type item struct {
		v reflect.Value
		p string
	}
	mk := func(x any, p string) item { return item{reflect.ValueOf(x), p} }
	sel := qrb.Select(qrb.N("a")).From(qrb.N("t"))
	cat := []item{
		mk(qrb.N("a"), `N("a")`), mk(qrb.N("t.b"), `N("t.b")`), mk(qrb.Int(5), "Int(5)"), mk(qrb.Int(0), "Int(0)"), mk(qrb.Int(-3), "Int(-3)"),
		mk(qrb.Float(1.5), "Float(1.5)"), mk(qrb.String("x"), `String("x")`), mk(qrb.Bool(true), "Bool(true)"), mk(qrb.Null(), "Null()"),
		mk(qrb.Arg(pool[1]), "Arg(pool[1])"), mk(qrb.Bind("b"), `Bind("b")`), mk(qrb.Interval("1 day"), `Interval("1 day")`),
		mk(qrb.N("a").Eq(qrb.Int(1)), `N("a").Eq(Int(1))`), mk(qrb.N("a").Plus(qrb.N("b")), `N("a").Plus(N("b"))`),
		mk(qrb.N("a").Mult(qrb.N("b")), `N("a").Mult(N("b"))`), mk(qrb.N("a").Concat(qrb.String("s")), `N("a").Concat(String("s"))`),
		mk(builder.Neg(qrb.N("a")), `Neg(N("a"))`), mk(qrb.Not(qrb.N("a")), `Not(N("a"))`),
		mk(qrb.And(qrb.N("a"), qrb.N("b")), `And(N("a"), N("b"))`), mk(qrb.Or(qrb.N("a"), qrb.N("b")), `Or(N("a"), N("b"))`),
		mk(qrb.And(qrb.N("a")), `And(N("a"))`), mk(qrb.N("a").IsNull(), `N("a").IsNull()`), mk(qrb.N("a").Like(qrb.String("x%")), `N("a").Like(String("x%"))`),
		mk(qrb.N("a").In(qrb.Exps(qrb.Int(1), qrb.Int(2))), `N("a").In(Exps(Int(1), Int(2)))`), mk(qrb.N("a").Cast("int"), `N("a").Cast("int")`),
		mk(qrb.Func("f", qrb.N("a")), `Func("f", N("a"))`), mk(qrb.Func("f").As("x"), `Func("f").As("x")`),
		mk(qrb.Agg("count", []builder.Exp{qrb.N("a")}), `Agg("count", N("a"))`), mk(qrb.Agg("sum", []builder.Exp{qrb.N("a")}).Distinct(), `Agg("sum", N("a")).Distinct()`),
		mk(qrb.Case().When(qrb.N("a")).Then(qrb.Int(1)).End(), `Case().When(N("a")).Then(Int(1)).End()`),
		mk(qrb.Coalesce(qrb.N("a"), qrb.Int(0)), `Coalesce(N("a"), Int(0))`), mk(qrb.Greatest(qrb.N("a"), qrb.Int(1)), `Greatest(N("a"), Int(1))`),
		mk(qrb.Least(qrb.N("a"), qrb.Int(9)), `Least(N("a"), Int(9))`), mk(qrb.NullIf(qrb.N("a"), qrb.Int(0)), `NullIf(N("a"), Int(0))`),
		mk(qrb.Exps(qrb.Int(1), qrb.Int(2)), "Exps(Int(1), Int(2))"), mk(qrb.Array(qrb.Int(1), qrb.Int(2)), "Array(Int(1), Int(2))"),
		mk(sel, `Select(N("a")).From(N("t"))`), mk(qrb.Exists(sel), "Exists(sel)"), mk(qrb.Any(sel), "Any(sel)"),
		// the negated / case-insensitive / SIMILAR TO members of the LIKE family (their Escape refinement is a method of the result)
		mk(qrb.N("a").NotLike(qrb.String("x%")), `N("a").NotLike(String("x%"))`), mk(qrb.N("a").ILike(qrb.String("x%")), `N("a").ILike(String("x%"))`),
		mk(qrb.N("a").NotILike(qrb.String("x%")), `N("a").NotILike(String("x%"))`), mk(qrb.N("a").SimilarTo(qrb.String("x%")), `N("a").SimilarTo(String("x%"))`),
		mk(qrb.N("a").NotSimilarTo(qrb.String("x%")), `N("a").NotSimilarTo(String("x%"))`),
		// JSON objects of both flavours: empty, and with the keys the string operands below hit first / not at all / last
		mk(builder.JsonBuildObject(false), "JsonBuildObject(false)"),
		mk(builder.JsonBuildObject(true).Prop("x", qrb.N("a")).Prop("k", qrb.Int(1)).Prop("z", qrb.Arg(pool[2])), `JsonBuildObject(true).Prop("x", N("a")).Prop("k", Int(1)).Prop("z", Arg(pool[2]))`),
		// an unset (nil) expression: filtered by And / Or, recorded as it is by everything else
		{reflect.Zero(expIface), "nil"},
	}
	rng := rand.New(rand.NewSource(seed + 77))
	fits := func(v reflect.Value, pt reflect.Type) bool { return v.Type().AssignableTo(pt) }
	expish := func(pt reflect.Type) bool {
		return pt.Kind() == reflect.Interface && pt.NumMethod() > 0 && pt.Implements(writerIface)
	}
	call := func(fn reflect.Value, args []reflect.Value) (out reflect.Value, ok bool) {
		defer func() {
			if recover() != nil {
				ok = false
			}
		}()
		return fn.Call(args)[0], true
	}
	type job struct {
		name, owner string
		fn          reflect.Value
		typ         reflect.Type
		isMethod    bool
		args        []reflect.Value
		prog        string
	}
	var unary, binary []job
	// package-level constructors
	for _, f := range registry.Funcs {
		pkg, _, _ := strings.Cut(f.Name, ".")
		if pkg != "qrb" && pkg != "builder" {
			continue
		}
		ft := f.Fn.Type()
		if ft.NumOut() != 1 {
			continue
		}
		switch {
		case ft.NumIn() == 1 && !ft.IsVariadic() && expish(ft.In(0)):
			for _, a := range cat {
				if fits(a.v, ft.In(0)) {
					unary = append(unary, job{f.Name, "", f.Fn, ft, false, []reflect.Value{a.v}, f.Name + "(" + a.p + ")"})
				}
			}
		case ft.NumIn() == 1 && ft.IsVariadic() && expish(ft.In(0).Elem()):
			for _, a := range cat {
				if fits(a.v, ft.In(0).Elem()) {
					unary = append(unary, job{f.Name, "", f.Fn, ft, false, []reflect.Value{a.v}, f.Name + "(" + a.p + ")"})
					for _, b := range cat {
						if fits(b.v, ft.In(0).Elem()) {
							binary = append(binary, job{f.Name, "", f.Fn, ft, false, []reflect.Value{a.v, b.v}, f.Name + "(" + a.p + ", " + b.p + ")"})
						}
					}
				}
			}
		case ft.NumIn() == 2 && expish(ft.In(0)) && (expish(ft.In(1)) || (ft.IsVariadic() && expish(ft.In(1).Elem()))):
			second := ft.In(1)
			if ft.IsVariadic() {
				second = second.Elem()
			}
			for _, a := range cat {
				for _, b := range cat {
					if fits(a.v, ft.In(0)) && fits(b.v, second) {
						binary = append(binary, job{f.Name, "", f.Fn, ft, false, []reflect.Value{a.v, b.v}, f.Name + "(" + a.p + ", " + b.p + ")"})
					}
				}
			}
		}
	}
	// methods of the catalogue values
	for _, r := range cat {
		rt := r.v.Type()
		if rt.Kind() == reflect.Interface {
			continue // the nil operand has no methods to call
		}
		for i := 0; i < rt.NumMethod(); i++ {
			m := rt.Method(i)
			mt := m.Type
			if mt.NumOut() != 1 || m.Name == "WriteSQL" {
				continue
			}
			owner := gen.MethodOwner(rt, m.Name)
			name := rt.Name() + "." + m.Name
			switch {
			case mt.NumIn() == 1:
				unary = append(unary, job{name, owner, r.v.Method(i), mt, true, []reflect.Value{r.v}, r.p + "." + m.Name + "()"})
			case mt.NumIn() == 2 && mt.In(1).Kind() == reflect.String && mt.In(1).PkgPath() == "":
				for _, str := range []string{"int2", "x"} {
					unary = append(unary, job{name, owner, r.v.Method(i), mt, true, []reflect.Value{r.v, reflect.ValueOf(str)}, fmt.Sprintf("%s.%s(%q)", r.p, m.Name, str)})
				}
			case mt.NumIn() == 2 && mt.In(1).Kind() == reflect.Int32:
				for _, c := range []rune{'!', '\\', '\''} {
					unary = append(unary, job{name, owner, r.v.Method(i), mt, true, []reflect.Value{r.v, reflect.ValueOf(c)}, fmt.Sprintf("%s.%s(%q)", r.p, m.Name, c)})
				}
			case mt.NumIn() == 3 && mt.In(1).Kind() == reflect.String && expish(mt.In(2)):
				// Prop(key, value): an existing first / last key, a new key, the empty key
				for _, str := range []string{"x", "z", "int2", ""} {
					for ai, a := range cat {
						if fits(a.v, mt.In(2)) {
							j := job{name, owner, r.v.Method(i), mt, true, []reflect.Value{r.v, reflect.ValueOf(str), a.v}, fmt.Sprintf("%s.%s(%q, %s)", r.p, m.Name, str, a.p)}
							if ai < 8 || ai == len(cat)-1 {
								unary = append(unary, j) // always run: a few value shapes and the nil value
							} else {
								binary = append(binary, j)
							}
						}
					}
				}
			case mt.NumIn() == 4 && mt.In(1).Kind() == reflect.Bool && mt.In(2).Kind() == reflect.String && expish(mt.In(3)):
				for _, c := range []bool{false, true} {
					for _, str := range []string{"x", "z", "int2"} {
						for _, a := range cat[:6] {
							if fits(a.v, mt.In(3)) {
								unary = append(unary, job{name, owner, r.v.Method(i), mt, true, []reflect.Value{r.v, reflect.ValueOf(c), reflect.ValueOf(str), a.v}, fmt.Sprintf("%s.%s(%v, %q, %s)", r.p, m.Name, c, str, a.p)})
							}
						}
					}
				}
			case mt.NumIn() == 2 && expish(mt.In(1)):
				for _, a := range cat {
					if fits(a.v, mt.In(1)) {
						binary = append(binary, job{name, owner, r.v.Method(i), mt, true, []reflect.Value{r.v, a.v}, r.p + "." + m.Name + "(" + a.p + ")"})
					}
				}
			}
		}
	}
	run := func(j job) {
		args := j.args
		if j.isMethod {
			args = j.args[1:]
		}
		out, ok := call(j.fn, args)
		if !ok || !out.IsValid() {
			return
		}
		if !out.Type().Implements(writerIface) && out.Kind() != reflect.Struct {
			return // Ident() string, Precedence() int ...
		}
		record(j.name, j.owner, j.typ, j.isMethod, j.args, out, j.prog)
	}
	for _, j := range unary {
		run(j)
	}
	rng.Shuffle(len(binary), func(a, b int) { binary[a], binary[b] = binary[b], binary[a] })
	if len(binary) > budget {
		binary = binary[:budget]
	}
	for _, j := range binary {
		run(j)
	}
}

// embedded finds the value of type t that v is or embeds (promoted methods run on it).
func embedded(v reflect.Value, t reflect.Type) (reflect.Value, bool) {
	if v.Type() == t {
		return v, true
	}
	if v.Kind() == reflect.Struct {
		for i := 0; i < v.NumField(); i++ {
			if v.Type().Field(i).Anonymous {
				if r, ok := embedded(v.Field(i), t); ok {
					return r, true
				}
			}
		}
	}
	return reflect.Value{}, false
}

// encodeFuncArgs: the function argument of ApplyIf / ApplySelectJson travels as the value it returns on this receiver
// (computed here by calling it; "nil" for a nil function).
func encodeFuncArgs(d *dump.Dumper, safeDump func(reflect.Value) (string, bool), cur reflect.Value, meth string, args []reflect.Value) (out []string, ok bool) {
	defer func() {
		if recover() != nil {
			out, ok = nil, false
		}
	}()
	fn := args[len(args)-1]
	if fn.Kind() != reflect.Func {
		return nil, false
	}
	if meth == "ApplyIf" {
		if len(args) != 2 || args[0].Kind() != reflect.Bool {
			return nil, false
		}
		out = append(out, "(bool "+map[bool]string{true: "T", false: "F"}[args[0].Bool()]+")")
	}
	if fn.IsNil() {
		return append(out, "(exp nil)"), true
	}
	in := fn.Type().In(0)
	var arg reflect.Value
	if meth == "ApplyIf" {
		var found bool
		if arg, found = embedded(cur, in); !found {
			return nil, false
		}
	} else {
		sb, found := embedded(cur, reflect.TypeOf(builder.SelectBuilder{}))
		if !found {
			return nil, false
		}
		ptr := field(field(sb, "parts"), "selectJson")
		arg = reflect.Zero(in)
		if !ptr.IsNil() {
			arg = ptr.Elem()
		}
	}
	res := fn.Call([]reflect.Value{arg})[0]
	rd, ok2 := safeDump(res)
	if !ok2 {
		return nil, false
	}
	return append(out, "(exp "+rd+")"), true
}
