package main

// Witness programs of the known findings (known_findings.json) and of earlier, now repaired defects:
// they run first in every check that can observe them, so a listed finding is reported
// deterministically and a repaired one is re-checked on every run.

import (
	qrb "github.com/networkteam/qrb"
	"github.com/networkteam/qrb/builder"
	"github.com/networkteam/qrb/fn"
)

type witness struct {
	ID   string
	Prog string
	W    builder.SQLWriter
}

func witnesses() []witness {
	return []witness{
		{"D5-setop-branch-tail", `qrb.Select(qrb.N("a")).OrderBy(qrb.N("bad name")).Limit(qrb.Arg(pool[3])).Union().Select(qrb.N("b"))`,
			qrb.Select(qrb.N("a")).OrderBy(qrb.N("bad name")).Limit(qrb.Arg(pool[3])).Union().Select(qrb.N("b"))},
		{"D10-offender-after-structural-abort", `qrb.InsertInto(qrb.N("t")).Values(qrb.Int(1)).Query(qrb.Select(qrb.N("bad name"))).Returning(qrb.N("also bad"))`,
			qrb.InsertInto(qrb.N("t")).Values(qrb.Int(1)).Query(qrb.Select(qrb.N("bad name"))).Returning(qrb.N("also bad"))},
		{"D10-conflict-abort", `qrb.InsertInto(qrb.N("t")).Values(qrb.Int(1)).OnConflict(qrb.N("a")).OnConstraint("c").DoNothing().Returning(qrb.N("bad name"))`,
			qrb.InsertInto(qrb.N("t")).Values(qrb.Int(1)).OnConflict(qrb.N("a")).OnConstraint("c").DoNothing().Returning(qrb.N("bad name"))},
		{"D1-jsonb-batch", `fn.JsonbBuildObject().Start().Prop("k", qrb.N("a")).End()`,
			fn.JsonbBuildObject().Start().Prop("k", qrb.N("a")).End()},
		{"D3-json-extract-path-text", `qrb.N("a").JsonExtractPathText(qrb.N("b"))`, qrb.N("a").JsonExtractPathText(qrb.N("b"))},
		{"D4-rollup-one-element", `qrb.Select(qrb.N("x")).GroupBy().Rollup(qrb.Exps(qrb.N("a")))`,
			qrb.Select(qrb.N("x")).GroupBy().Rollup(qrb.Exps(qrb.N("a")))},
		{"D6-crossjoin-on", `qrb.Select(qrb.N("x")).From(qrb.N("t")).CrossJoin(qrb.N("u")).On(qrb.N("c"))`,
			qrb.Select(qrb.N("x")).From(qrb.N("t")).CrossJoin(qrb.N("u")).On(qrb.N("c"))},
		{"D7-minus-right", `qrb.N("a").Minus(qrb.N("b").Minus(qrb.N("c")))`, qrb.N("a").Minus(qrb.N("b").Minus(qrb.N("c")))},
	}
}
