package main

// C18 mode: every exported wrapper of package fn and of the conditional functions (from the
// registry generated from the source, so added wrappers are included) and every operator method of
// ExpBase, applied to distinguishable arguments for every arity within the declaration.

import (
	"encoding/json"
	"fmt"
	"io"
	"reflect"
	"strings"

	qrb "github.com/networkteam/qrb"
	"github.com/networkteam/qrb/builder"
	"verif/internal/registry"
)

type c18Case struct {
	ID      int      `json:"id"`
	Kind    string   `json:"kind"` // func | op
	Name    string   `json:"name"`
	NArgs   int      `json:"nargs"`
	ArgText []string `json:"arg_text"` // the rendering of each argument, in declared order
	SQL     string   `json:"sql"`
	Generic string   `json:"generic"` // the same call through the generic constructor, symbol read from the text
	Result  string   `json:"result"`  // Go type of the result
	Panic   string   `json:"panic,omitempty"`
	Err     string   `json:"err,omitempty"`
	// set when a call through a caller-owned variadic slice with spare capacity changes that slice, a later call or
	// an earlier result
	Alias string `json:"alias,omitempty"`
}

func plainSQL(w builder.SQLWriter) (string, string) {
	s, _, err := qrb.Build(w).ToSQL()
	if err != nil {
		return s, err.Error()
	}
	return s, ""
}

func runC18(out io.Writer) {
	enc := json.NewEncoder(out)
	id := 0
	expT := reflect.TypeOf((*builder.Exp)(nil)).Elem()
	for _, f := range registry.Funcs {
		if !(strings.HasPrefix(f.Name, "fn.") || f.Name == "builder.Coalesce" || f.Name == "builder.NullIf" ||
			f.Name == "builder.Greatest" || f.Name == "builder.Least" || f.Name == "qrb.Coalesce" || f.Name == "qrb.NullIf" ||
			f.Name == "qrb.Greatest" || f.Name == "qrb.Least") {
			continue
		}
		ft := f.Fn.Type()
		fixed := ft.NumIn()
		extraMax := 0
		if ft.IsVariadic() {
			fixed--
			extraMax = 3
		}
		// argument shapes: plain names, then calls of wrappers (of the same family and of others), a generic function call,
		// a literal and a bound value in every expression position - a wrapper passes its arguments on whatever they are
		shapes := []func(name string) builder.Exp{
			func(name string) builder.Exp { return qrb.N(name) },
			func(name string) builder.Exp { return qrb.Greatest(qrb.N(name), qrb.N(name+"lo")) },
			func(name string) builder.Exp { return qrb.Least(qrb.N(name), qrb.N(name+"hi")) },
			func(name string) builder.Exp { return qrb.Coalesce(qrb.N(name), qrb.Int(0)) },
			func(name string) builder.Exp { return qrb.NullIf(qrb.N(name), qrb.Int(0)) },
			func(name string) builder.Exp { return qrb.Func("f", qrb.N(name)) },
			func(name string) builder.Exp { return qrb.String(name) },
			func(name string) builder.Exp { return qrb.N(name).Plus(qrb.Int(1)) },
		}
		for variant := 0; variant < (extraMax+1)*len(shapes); variant++ {
			extra, shape := variant%(extraMax+1), shapes[variant/(extraMax+1)]
			if variant/(extraMax+1) > 0 && fixed+extra == 0 {
				continue
			}
			c := c18Case{ID: id, Kind: "func", Name: f.Name, NArgs: fixed + extra}
			var genericArgs []builder.Exp
			id++
			func() {
				defer func() {
					if e := recover(); e != nil {
						c.Panic = fmt.Sprint(e)
					}
				}()
				var in []reflect.Value
				ok := true
				for j := 0; j < fixed+extra; j++ {
					var pt reflect.Type
					if j < fixed {
						pt = ft.In(j)
					} else {
						pt = ft.In(fixed).Elem()
					}
					name := fmt.Sprintf("arg%d", j+1)
					switch {
					case pt == expT:
						a := shape(name)
						in = append(in, reflect.ValueOf(a))
						txt, _ := plainSQL(a)
						c.ArgText = append(c.ArgText, txt)
						genericArgs = append(genericArgs, a)
					case pt.Kind() == reflect.String:
						in = append(in, reflect.ValueOf(name))
						c.ArgText = append(c.ArgText, name)
						genericArgs = append(genericArgs, qrb.N(name))
					default:
						ok = false
					}
				}
				if !ok {
					c.Panic = "unsupported parameter type"
					return
				}
				res := f.Fn.Call(in)[0]
				c.Result = res.Type().String()
				w := res.Interface().(builder.SQLWriter)
				c.SQL, c.Err = plainSQL(w)
				if ft.IsVariadic() && extra > 0 {
					// the same call with the variadic arguments in a caller-owned slice that has spare capacity, twice
					sl := reflect.MakeSlice(ft.In(fixed), extra, extra+3)
					for j := 0; j < extra; j++ {
						sl.Index(j).Set(in[fixed+j])
					}
					before := make([]any, extra)
					for j := range before {
						before[j] = sl.Index(j).Interface()
					}
					in2 := append(append([]reflect.Value{}, in[:fixed]...), sl)
					r1 := f.Fn.CallSlice(in2)[0].Interface().(builder.SQLWriter)
					s1, _ := plainSQL(r1)
					r2 := f.Fn.CallSlice(in2)[0].Interface().(builder.SQLWriter)
					s2, _ := plainSQL(r2)
					s1again, _ := plainSQL(r1)
					changed := false
					for j := range before {
						if !reflect.DeepEqual(before[j], sl.Index(j).Interface()) {
							changed = true
						}
					}
					switch {
					case changed:
						c.Alias = "the caller's argument slice was modified"
					case s1 != c.SQL:
						c.Alias = fmt.Sprintf("through a slice with spare capacity the call renders %q", s1)
					case s2 != c.SQL:
						c.Alias = fmt.Sprintf("a second call with the same slice renders %q", s2)
					case s1again != c.SQL:
						c.Alias = fmt.Sprintf("after a second call the first result renders %q", s1again)
					}
				}
				// generic constructor with the symbol as emitted
				if i := strings.IndexByte(c.SQL, '('); i > 0 {
					sym := c.SQL[:i]
					args := genericArgs
					var g builder.SQLWriter
					switch c.Result {
					case "builder.AggExpBuilder":
						g = qrb.Agg(sym, args)
					case "builder.FuncBuilder":
						g = qrb.Func(sym, args...)
					case "builder.ExpBase":
						g = builder.FuncExp(sym, args)
					}
					if g != nil {
						c.Generic, _ = plainSQL(g)
					}
				}
			}()
			enc.Encode(c)
		}
	}
	// operator and predicate methods of ExpBase
	bt := reflect.TypeOf(builder.ExpBase{})
	recv := qrb.N("lhs")
	for i := 0; i < bt.NumMethod(); i++ {
		m := bt.Method(i)
		if m.Name == "IsExp" || m.Name == "WriteSQL" || m.Name == "Op" || m.Name == "Cast" {
			continue
		}
		c := c18Case{ID: id, Kind: "op", Name: m.Name}
		id++
		var esc *c18Case
		func() {
			defer func() {
				if e := recover(); e != nil {
					c.Panic = fmt.Sprint(e)
				}
			}()
			mv := reflect.ValueOf(recv.ExpBase).MethodByName(m.Name)
			var in []reflect.Value
			for j := 0; j < mv.Type().NumIn(); j++ {
				a, ok := argFor(mv.Type().In(j))
				if !ok {
					c.Panic = "unsupported parameter type"
					return
				}
				in = append(in, a)
				c.ArgText = append(c.ArgText, "zz")
			}
			c.NArgs = len(in)
			res := mv.Call(in)[0]
			c.Result = res.Type().String()
			c.SQL, c.Err = plainSQL(res.Interface().(builder.SQLWriter))
			// the optional argument of the LIKE family: <method>(..).Escape(c) must keep the operator of <method>
			if em := res.MethodByName("Escape"); em.IsValid() && em.Type().NumIn() == 1 && em.Type().In(0).Kind() == reflect.Int32 {
				esc = &c18Case{ID: id, Kind: "op", Name: m.Name + ".Escape", ArgText: c.ArgText, NArgs: c.NArgs + 1}
				id++
				er := em.Call([]reflect.Value{reflect.ValueOf('!')})[0]
				esc.Result = er.Type().String()
				esc.SQL, esc.Err = plainSQL(er.Interface().(builder.SQLWriter))
			}
		}()
		enc.Encode(c)
		if esc != nil {
			enc.Encode(esc)
		}
	}
}
