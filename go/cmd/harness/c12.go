package main

// C12 / C13 mode: both adapters x {Query, QueryRow, Exec} x both construction paths x named
// arguments / none x validation on / off, with stub executors that record every call and return
// sentinel results.  Failing queries must reach no executor (C12); succeeding ones must reach it
// exactly once with the context, SQL and arguments of ToSQL, and its results must come back (C13).

import (
	"context"
	"database/sql"
	"encoding/hex"
	"encoding/json"
	"errors"
	"fmt"
	"io"
	"reflect"
	"strings"

	"github.com/jackc/pgx/v5"
	"github.com/jackc/pgx/v5/pgconn"

	"github.com/networkteam/qrb/builder"
	"github.com/networkteam/qrb/qrbpgx"
	"github.com/networkteam/qrb/qrbsql"
	"verif/internal/dump"
	"verif/internal/gen"
)

type recorded struct {
	Method string
	Ctx    context.Context
	SQL    string
	Args   []any
}

type ctxKey struct{}

var errSentinel = errors.New("executor sentinel error")

type stubRows struct {
	pgx.Rows
	id int
}
type stubRow struct {
	pgx.Row
	id int
}

type pgxStub struct {
	calls   []recorded
	rows    pgx.Rows
	row     pgx.Row
	tag     pgconn.CommandTag
	failing bool
}

func (s *pgxStub) err() error {
	if s.failing {
		return errSentinel
	}
	return nil
}
func (s *pgxStub) Query(ctx context.Context, q string, args ...any) (pgx.Rows, error) {
	s.calls = append(s.calls, recorded{"Query", ctx, q, args})
	return s.rows, s.err()
}
func (s *pgxStub) QueryRow(ctx context.Context, q string, args ...any) pgx.Row {
	s.calls = append(s.calls, recorded{"QueryRow", ctx, q, args})
	return s.row
}
func (s *pgxStub) Exec(ctx context.Context, q string, args ...any) (pgconn.CommandTag, error) {
	s.calls = append(s.calls, recorded{"Exec", ctx, q, args})
	return s.tag, s.err()
}

type stubResult struct{ id int }

func (stubResult) LastInsertId() (int64, error) { return 0, nil }
func (stubResult) RowsAffected() (int64, error) { return 0, nil }

type sqlStub struct {
	calls   []recorded
	rows    *sql.Rows
	row     *sql.Row
	res     sql.Result
	failing bool
}

func (s *sqlStub) err() error {
	if s.failing {
		return errSentinel
	}
	return nil
}
func (s *sqlStub) QueryContext(ctx context.Context, q string, args ...any) (*sql.Rows, error) {
	s.calls = append(s.calls, recorded{"Query", ctx, q, args})
	return s.rows, s.err()
}
func (s *sqlStub) QueryRowContext(ctx context.Context, q string, args ...any) *sql.Row {
	s.calls = append(s.calls, recorded{"QueryRow", ctx, q, args})
	return s.row
}
func (s *sqlStub) ExecContext(ctx context.Context, q string, args ...any) (sql.Result, error) {
	s.calls = append(s.calls, recorded{"Exec", ctx, q, args})
	return s.res, s.err()
}

type c12Case struct {
	ID        int    `json:"id"`
	Adapter   string `json:"adapter"`
	Method    string `json:"method"`
	Path      string `json:"path"` // build-then-executor | executor-then-build
	Named     bool   `json:"named"`
	Validate  bool   `json:"validate"`
	ExecFails bool   `json:"exec_fails"`
	Prog      string `json:"prog"`
	RenderErr string `json:"render_err,omitempty"` // error of a fresh ToSQL with the same options
	NCalls    int    `json:"ncalls"`
	Problems  []string `json:"problems"`
	NArgs     int    `json:"nargs"`
	Panic     string `json:"panic,omitempty"`
	SQL       string `json:"sql"`
	// for the independent oracle (the extracted model): the value and one standard rendering record of ToSQL
	Dump    string   `json:"dump"`
	Renders []Render `json:"renders"`
}

func runC12(out io.Writer, seed int64, n int, hostile float64) {
	enc := json.NewEncoder(out)
	g := gen.New(seed, pool)
	g.Hostile = hostile
	sg := &gen.S{G: g}
	d := &dump.Dumper{AnyID: anyID}
	id := 0
	for i := 0; id < n; i++ {
		var w builder.SQLWriter
		var prog string
		func() {
			defer func() { recover() }()
			if i%3 == 0 {
				t := reflect.TypeOf(builder.SelectBuilder{})
				v, ok := g.Gen(t, 4, "")
				if ok {
					w, prog = v.V.Interface().(builder.SQLWriter), v.Prog
				}
			} else {
				w, prog, _ = sg.Statement(1 + g.Rng.Intn(4))
			}
		}()
		if w == nil {
			continue
		}
		binds := bindsOfWriter(w)
		dumpText := func() (t string) {
			defer func() {
				if recover() != nil {
					t = ""
				}
			}()
			return d.Value(w)
		}()
		namedIDs := map[string]int{}
		for k, v := range binds {
			namedIDs[k] = anyID(v)
		}
		for _, adapter := range []string{"pgx", "sql"} {
			for _, method := range []string{"Query", "QueryRow", "Exec"} {
				for _, path := range []string{"build-then-executor", "executor-then-build"} {
					named := g.Rng.Intn(2) == 0
					validate := g.Rng.Intn(4) != 0
					execFails := g.Rng.Intn(5) == 0
					c := c12Case{ID: id, Adapter: adapter, Method: method, Path: path, Named: named, Validate: validate,
						ExecFails: execFails, Prog: prog, Problems: []string{}}
					id++
					runOneC12(&c, w, binds, g)
					c.Dump = dumpText
					if named {
						c.Renders = []Render{render(w, validate, false, namedIDs)}
					} else {
						c.Renders = []Render{render(w, validate, false, nil)}
					}
					enc.Encode(c)
				}
			}
		}
	}
}

func bindsOfWriter(w builder.SQLWriter) map[string]any {
	m := map[string]any{}
	for _, b := range bindsOf(litDumper.Value(w)) {
		name, _ := hex.DecodeString(b)
		m[string(name)] = pool[11+len(m)%30]
	}
	return m
}

func runOneC12(c *c12Case, w builder.SQLWriter, binds map[string]any, g *gen.Gen) {
	defer func() {
		if e := recover(); e != nil {
			c.Panic = fmt.Sprint(e)
		}
	}()
	// reference: what ToSQL returns for the same query, options and named arguments
	ref := builder.Build(w)
	if !c.Validate {
		ref = ref.WithoutValidation()
	}
	if c.Named {
		ref = ref.WithNamedArgs(binds)
	}
	wantSQL, wantArgs, wantErr := ref.ToSQL()
	if wantErr != nil {
		c.RenderErr = wantErr.Error()
	}
	c.SQL = hex.EncodeToString([]byte(wantSQL))
	c.NArgs = len(wantArgs)
	ctx := context.WithValue(context.Background(), ctxKey{}, c.ID)

	var calls []recorded
	var gotErr error
	var resultOK bool
	if c.Adapter == "pgx" {
		stub := &pgxStub{rows: &stubRows{id: c.ID}, row: &stubRow{id: c.ID}, tag: pgconn.NewCommandTag(fmt.Sprintf("STUB %d", c.ID)), failing: c.ExecFails}
		var eb *qrbpgx.ExecutiveQueryBuilder
		if c.Path == "build-then-executor" {
			eb = qrbpgx.Build(w).WithExecutor(stub)
		} else {
			eb = qrbpgx.NewExecutorBuilder(stub).Build(w)
		}
		if !c.Validate {
			eb = eb.WithoutValidation()
		}
		if c.Named {
			eb = eb.WithNamedArgs(binds)
		}
		switch c.Method {
		case "Query":
			r, err := eb.Query(ctx)
			gotErr = err
			resultOK = (wantErr != nil && r == nil) || (wantErr == nil && r == stub.rows)
		case "QueryRow":
			r, err := eb.QueryRow(ctx)
			gotErr = err
			resultOK = (wantErr != nil && r == nil) || (wantErr == nil && r == stub.row)
		default:
			r, err := eb.Exec(ctx)
			gotErr = err
			resultOK = (wantErr != nil && r.String() == "") || (wantErr == nil && r.String() == stub.tag.String())
		}
		calls = stub.calls
	} else {
		stub := &sqlStub{rows: &sql.Rows{}, row: &sql.Row{}, res: stubResult{c.ID}, failing: c.ExecFails}
		var eb *qrbsql.ExecutiveQueryBuilder
		if c.Path == "build-then-executor" {
			eb = qrbsql.Build(w).WithExecutor(stub)
		} else {
			eb = qrbsql.NewExecutorBuilder(stub).Build(w)
		}
		if !c.Validate {
			eb = eb.WithoutValidation()
		}
		if c.Named {
			eb = eb.WithNamedArgs(binds)
		}
		switch c.Method {
		case "Query":
			r, err := eb.Query(ctx)
			gotErr = err
			resultOK = (wantErr != nil && r == nil) || (wantErr == nil && r == stub.rows)
		case "QueryRow":
			r, err := eb.QueryRow(ctx)
			gotErr = err
			resultOK = (wantErr != nil && r == nil) || (wantErr == nil && r == stub.row)
		default:
			r, err := eb.Exec(ctx)
			gotErr = err
			resultOK = (wantErr != nil && r == nil) || (wantErr == nil && r == stub.res)
		}
		calls = stub.calls
	}
	c.NCalls = len(calls)
	if wantErr != nil {
		// C12: fail closed
		if len(calls) != 0 {
			c.Problems = append(c.Problems, fmt.Sprintf("C12: executor observed %d call(s) although rendering fails: %q", len(calls), calls[0].SQL))
		}
		sameMissing := gotErr != nil && strings.HasPrefix(gotErr.Error(), "missing named argument") &&
			strings.HasPrefix(wantErr.Error(), "missing named argument") // which name is reported depends on map order
		if gotErr == nil || (gotErr.Error() != wantErr.Error() && !sameMissing) {
			c.Problems = append(c.Problems, fmt.Sprintf("C12: returned error %v, rendering error %v", gotErr, wantErr))
		}
		if !resultOK {
			c.Problems = append(c.Problems, "C12: a non-zero result was returned together with the rendering error")
		}
		return
	}
	// C13: forwarded exactly once, unchanged
	if len(calls) != 1 {
		c.Problems = append(c.Problems, fmt.Sprintf("C13: executor observed %d calls", len(calls)))
		return
	}
	call := calls[0]
	if call.Method != c.Method {
		c.Problems = append(c.Problems, "C13: executor method "+call.Method+" was called")
	}
	if call.Ctx != ctx {
		c.Problems = append(c.Problems, "C13: the executor did not receive the caller's context")
	}
	if call.SQL != wantSQL {
		c.Problems = append(c.Problems, fmt.Sprintf("C13: executor received sql %q, ToSQL returns %q", call.SQL, wantSQL))
	}
	if len(call.Args) != len(wantArgs) || (len(wantArgs) > 0 && !reflect.DeepEqual(call.Args, wantArgs)) {
		c.Problems = append(c.Problems, fmt.Sprintf("C13: executor received %d args %v, ToSQL returns %d args %v", len(call.Args), call.Args, len(wantArgs), wantArgs))
	}
	if !resultOK {
		c.Problems = append(c.Problems, "C13: the executor's result was not returned unchanged")
	}
	wantExecErr := c.ExecFails && c.Method != "QueryRow"
	if wantExecErr != (gotErr != nil) || (gotErr != nil && gotErr != errSentinel) {
		c.Problems = append(c.Problems, fmt.Sprintf("C13: the executor's error was not returned unchanged (got %v)", gotErr))
	}
}
