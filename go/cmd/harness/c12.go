package main

// C12 / C13 mode: both adapters x {Query, QueryRow, Exec} x both construction paths x named
// arguments / none x validation on / off, with stub executors that record every call and return
// sentinel results.  Failing queries must reach no executor (C12); succeeding ones must reach it
// exactly once with the context, SQL and arguments of ToSQL, and its results must come back (C13).

import (
	"context"
	"database/sql"
	"encoding/hex"
	"encoding/json"
	"fmt"
	"io"
	"reflect"
	"strings"

	"github.com/jackc/pgx/v5"
	"github.com/jackc/pgx/v5/pgconn"

	"github.com/networkteam/qrb/builder"
	"github.com/networkteam/qrb/qrbpgx"
	"github.com/networkteam/qrb/qrbsql"
	"verif/internal/dump"
	"verif/internal/gen"
)

type recorded struct {
	Method string
	Ctx    context.Context
	SQL    string
	Args   []any
}

type ctxKey struct{}

// the executor's error claims to be everything an adapter might be tempted to treat specially (retryable, temporary,
// a timeout): it must come back unchanged, after exactly one call, all the same
type sentinelErr struct{}

func (*sentinelErr) Error() string     { return "executor sentinel error" }
func (*sentinelErr) SafeToRetry() bool { return true }
func (*sentinelErr) Temporary() bool   { return true }
func (*sentinelErr) Timeout() bool     { return true }

var errSentinel error = &sentinelErr{}

type stubRows struct {
	pgx.Rows
	id int
}
type stubRow struct {
	pgx.Row
	id int
}

type pgxStub struct {
	calls   []recorded
	rows    pgx.Rows
	row     pgx.Row
	tag     pgconn.CommandTag
	failing bool
}

func (s *pgxStub) err() error {
	if s.failing {
		return errSentinel
	}
	return nil
}
func (s *pgxStub) Query(ctx context.Context, q string, args ...any) (pgx.Rows, error) {
	s.calls = append(s.calls, recorded{"Query", ctx, q, args})
	return s.rows, s.err()
}
func (s *pgxStub) QueryRow(ctx context.Context, q string, args ...any) pgx.Row {
	s.calls = append(s.calls, recorded{"QueryRow", ctx, q, args})
	return s.row
}
func (s *pgxStub) Exec(ctx context.Context, q string, args ...any) (pgconn.CommandTag, error) {
	s.calls = append(s.calls, recorded{"Exec", ctx, q, args})
	return s.tag, s.err()
}

type stubResult struct{ id int }

func (stubResult) LastInsertId() (int64, error) { return 0, nil }
func (stubResult) RowsAffected() (int64, error) { return 0, nil }

type sqlStub struct {
	calls   []recorded
	rows    *sql.Rows
	row     *sql.Row
	res     sql.Result
	failing bool
}

func (s *sqlStub) err() error {
	if s.failing {
		return errSentinel
	}
	return nil
}
func (s *sqlStub) QueryContext(ctx context.Context, q string, args ...any) (*sql.Rows, error) {
	s.calls = append(s.calls, recorded{"Query", ctx, q, args})
	return s.rows, s.err()
}
func (s *sqlStub) QueryRowContext(ctx context.Context, q string, args ...any) *sql.Row {
	s.calls = append(s.calls, recorded{"QueryRow", ctx, q, args})
	return s.row
}
func (s *sqlStub) ExecContext(ctx context.Context, q string, args ...any) (sql.Result, error) {
	s.calls = append(s.calls, recorded{"Exec", ctx, q, args})
	return s.res, s.err()
}

type c12Case struct {
	ID        int      `json:"id"`
	Adapter   string   `json:"adapter"`
	Method    string   `json:"method"`
	Path      string   `json:"path"` // build-then-executor | executor-then-build
	Named     bool     `json:"named"`
	Validate  bool     `json:"validate"`
	ExecFails bool     `json:"exec_fails"`
	Pretty    bool     `json:"pretty"`
	Second    string   `json:"second"` // method of a second execution on the same executive builder, "" for none
	Prog      string   `json:"prog"`
	RenderErr string   `json:"render_err,omitempty"` // error of a fresh ToSQL with the same options
	NCalls    int      `json:"ncalls"`
	Problems  []string `json:"problems"`
	NArgs     int      `json:"nargs"`
	Panic     string   `json:"panic,omitempty"`
	SQL       string   `json:"sql"`
	// for the independent oracle (the extracted model): the value and one standard rendering record of ToSQL
	Dump    string   `json:"dump"`
	Renders []Render `json:"renders"`
}

func runC12(out io.Writer, seed int64, n int, hostile float64) {
	enc := json.NewEncoder(out)
	g := gen.New(seed, pool)
	g.Hostile = hostile
	sg := &gen.S{G: g}
	d := &dump.Dumper{AnyID: anyID}
	id := 0
	for i := 0; id < n; i++ {
		var w builder.SQLWriter
		var prog string
		func() {
			defer func() { recover() }()
			if i%3 == 0 {
				t := reflect.TypeOf(builder.SelectBuilder{})
				v, ok := g.Gen(t, 4, "")
				if ok {
					w, prog = v.V.Interface().(builder.SQLWriter), v.Prog
				}
			} else {
				w, prog, _ = sg.Statement(1 + g.Rng.Intn(4))
			}
		}()
		if w == nil {
			continue
		}
		binds := bindsOfWriter(w)
		dumpText := func() (t string) {
			defer func() {
				if recover() != nil {
					t = ""
				}
			}()
			return d.Value(w)
		}()
		namedIDs := map[string]int{}
		for k, v := range binds {
			namedIDs[k] = anyID(v)
		}
		for _, adapter := range []string{"pgx", "sql"} {
			for _, method := range []string{"Query", "QueryRow", "Exec"} {
				for _, path := range []string{"build-then-executor", "executor-then-build"} {
					named := g.Rng.Intn(2) == 0
					validate := g.Rng.Intn(4) != 0
					execFails := g.Rng.Intn(5) == 0
					pretty := g.Rng.Intn(3) == 0
					second := ""
					if g.Rng.Intn(2) == 0 {
						second = []string{"Query", "QueryRow", "Exec"}[g.Rng.Intn(3)]
					}
					c := c12Case{ID: id, Adapter: adapter, Method: method, Path: path, Named: named, Validate: validate,
						ExecFails: execFails, Pretty: pretty, Second: second, Prog: prog, Problems: []string{}}
					id++
					runOneC12(&c, w, binds, g)
					c.Dump = dumpText
					if named {
						c.Renders = []Render{render(w, validate, pretty, namedIDs)}
					} else {
						c.Renders = []Render{render(w, validate, pretty, nil)}
					}
					enc.Encode(c)
				}
			}
		}
	}
}

func bindsOfWriter(w builder.SQLWriter) map[string]any {
	m := map[string]any{}
	for _, b := range bindsOf(litDumper.Value(w)) {
		name, _ := hex.DecodeString(b)
		m[string(name)] = pool[11+len(m)%30]
	}
	return m
}

func runOneC12(c *c12Case, w builder.SQLWriter, binds map[string]any, g *gen.Gen) {
	defer func() {
		if e := recover(); e != nil {
			c.Panic = fmt.Sprint(e)
		}
	}()
	// own copy of the named arguments (mutated between the two executions of round 2)
	named := map[string]any{}
	for k, v := range binds {
		named[k] = v
	}
	// reference: what a fresh ToSQL returns for the same query, options and (current) named arguments
	fresh := func() (string, []any, error) {
		ref := builder.Build(w)
		if !c.Validate {
			ref = ref.WithoutValidation()
		}
		if c.Pretty {
			ref = ref.PrettyPrint()
		}
		if c.Named {
			ref = ref.WithNamedArgs(named)
		}
		return ref.ToSQL()
	}
	wantSQL, wantArgs, wantErr := fresh()
	if wantErr != nil {
		c.RenderErr = wantErr.Error()
	}
	c.SQL = hex.EncodeToString([]byte(wantSQL))
	c.NArgs = len(wantArgs)
	ctx := context.WithValue(context.Background(), ctxKey{}, c.ID)

	// one executive builder, configured in a random order of the option methods
	var calls *[]recorded
	var run func(method string) (error, func(wantErr bool) bool)
	order := g.Rng.Perm(3)
	if c.Adapter == "pgx" {
		stub := &pgxStub{rows: &stubRows{id: c.ID}, row: &stubRow{id: c.ID}, tag: pgconn.NewCommandTag(fmt.Sprintf("STUB %d", c.ID)), failing: c.ExecFails}
		var eb *qrbpgx.ExecutiveQueryBuilder
		if c.Path == "build-then-executor" {
			eb = qrbpgx.Build(w).WithExecutor(stub)
		} else {
			eb = qrbpgx.NewExecutorBuilder(stub).Build(w)
		}
		for _, o := range order {
			switch {
			case o == 0 && !c.Validate:
				eb = eb.WithoutValidation()
			case o == 1 && c.Named:
				eb = eb.WithNamedArgs(named)
			case o == 2 && c.Pretty:
				eb.PrettyPrint()
			}
		}
		calls = &stub.calls
		run = func(method string) (error, func(bool) bool) {
			switch method {
			case "Query":
				r, err := eb.Query(ctx)
				return err, func(we bool) bool { return (we && r == nil) || (!we && r == stub.rows) }
			case "QueryRow":
				r, err := eb.QueryRow(ctx)
				return err, func(we bool) bool { return (we && r == nil) || (!we && r == stub.row) }
			default:
				r, err := eb.Exec(ctx)
				return err, func(we bool) bool {
					return (we && r.String() == "") || (!we && r.String() == stub.tag.String())
				}
			}
		}
	} else {
		stub := &sqlStub{rows: &sql.Rows{}, row: &sql.Row{}, res: stubResult{c.ID}, failing: c.ExecFails}
		var eb *qrbsql.ExecutiveQueryBuilder
		if c.Path == "build-then-executor" {
			eb = qrbsql.Build(w).WithExecutor(stub)
		} else {
			eb = qrbsql.NewExecutorBuilder(stub).Build(w)
		}
		for _, o := range order {
			switch {
			case o == 0 && !c.Validate:
				eb = eb.WithoutValidation()
			case o == 1 && c.Named:
				eb = eb.WithNamedArgs(named)
			case o == 2 && c.Pretty:
				eb.PrettyPrint()
			}
		}
		calls = &stub.calls
		run = func(method string) (error, func(bool) bool) {
			switch method {
			case "Query":
				r, err := eb.Query(ctx)
				return err, func(we bool) bool { return (we && r == nil) || (!we && r == stub.rows) }
			case "QueryRow":
				r, err := eb.QueryRow(ctx)
				return err, func(we bool) bool { return (we && r == nil) || (!we && r == stub.row) }
			default:
				r, err := eb.Exec(ctx)
				return err, func(we bool) bool { return (we && r == nil) || (!we && r == stub.res) }
			}
		}
	}

	// round 1: the method of the case; round 2 (same executive builder): another method, after one named
	// argument was given a new value in the caller's map
	methods := []string{c.Method}
	if c.Second != "" {
		methods = append(methods, c.Second)
	}
	for round, method := range methods {
		if round == 1 && c.Named {
			for k := range named {
				named[k] = pool[2+g.Rng.Intn(8)]
				break
			}
			wantSQL, wantArgs, wantErr = fresh()
		}
		before := len(*calls)
		gotErr, resultOK := run(method)
		now := (*calls)[before:]
		tag := ""
		if round == 1 {
			tag = " (second execution of the same builder, " + method + ")"
		}
		if wantErr != nil {
			// C12: fail closed
			if len(now) != 0 {
				c.Problems = append(c.Problems, fmt.Sprintf("C12: executor observed %d call(s) although rendering fails%s: %q", len(now), tag, now[0].SQL))
			}
			sameMissing := gotErr != nil && strings.HasPrefix(gotErr.Error(), "missing named argument") &&
				strings.HasPrefix(wantErr.Error(), "missing named argument") // which name is reported depends on map order
			if gotErr == nil || (gotErr.Error() != wantErr.Error() && !sameMissing) {
				c.Problems = append(c.Problems, fmt.Sprintf("C12: returned error %v, rendering error %v%s", gotErr, wantErr, tag))
			}
			if !resultOK(true) {
				c.Problems = append(c.Problems, "C12: a non-zero result was returned together with the rendering error"+tag)
			}
			continue
		}
		// C13: forwarded exactly once, unchanged
		if len(now) != 1 {
			c.Problems = append(c.Problems, fmt.Sprintf("C13: executor observed %d calls%s", len(now), tag))
			continue
		}
		call := now[0]
		if call.Method != method {
			c.Problems = append(c.Problems, "C13: executor method "+call.Method+" was called"+tag)
		}
		if call.Ctx != ctx {
			c.Problems = append(c.Problems, "C13: the executor did not receive the caller's context"+tag)
		}
		if call.SQL != wantSQL {
			c.Problems = append(c.Problems, fmt.Sprintf("C13: executor received sql %q, ToSQL returns %q%s", call.SQL, wantSQL, tag))
		}
		if len(call.Args) != len(wantArgs) || (len(wantArgs) > 0 && !reflect.DeepEqual(call.Args, wantArgs)) {
			c.Problems = append(c.Problems, fmt.Sprintf("C13: executor received %d args %v, ToSQL returns %d args %v%s", len(call.Args), call.Args, len(wantArgs), wantArgs, tag))
		}
		if !resultOK(false) {
			c.Problems = append(c.Problems, "C13: the executor's result was not returned unchanged"+tag)
		}
		wantExecErr := c.ExecFails && method != "QueryRow"
		if wantExecErr != (gotErr != nil) || (gotErr != nil && gotErr != errSentinel) {
			c.Problems = append(c.Problems, fmt.Sprintf("C13: the executor's error was not returned unchanged (got %v)%s", gotErr, tag))
		}
	}
	c.NCalls = len(*calls)
}
