// harness generates API programs, runs them on the qrb tree under test and records the observables
// (one JSON object per line) for comparison with the extracted Coq model.
package main

import (
	"encoding/hex"
	"encoding/json"
	"errors"
	"flag"
	"fmt"
	"os"
	"reflect"
	"regexp"
	"sort"
	"strings"

	"github.com/networkteam/qrb/builder"
	"verif/internal/dump"
	"verif/internal/gen"
)

type Render struct {
	V        bool           `json:"v"`
	P        bool           `json:"p"`
	Named    map[string]int `json:"named"` // nil: no WithNamedArgs call
	Panic    string         `json:"panic,omitempty"`
	SQL      string         `json:"sql"` // hex
	Args     []int          `json:"args"`
	Err      *string        `json:"err"` // hex of err.Error(), null if nil
	ErrIs    []string       `json:"err_is,omitempty"`
	Missing  bool           `json:"missing,omitempty"`
	Unstable string         `json:"unstable,omitempty"` // set when repeated renderings differ
}

type Case struct {
	ID      int      `json:"id"`
	Gen     string   `json:"gen"`
	Type    string   `json:"type"`
	Prog    string   `json:"prog"`
	Dump    string   `json:"dump"`
	Binds   []string `json:"binds"` // hex
	Renders []Render `json:"renders"`
}

type tagged struct{ id int }

func makePool() []any {
	pool := []any{nil, 1, 1, "x", "x", 3.5, true, []int{1, 2}, []int{1, 2}, map[string]int{"a": 1}, &tagged{10}}
	for i := len(pool); i < 48; i++ {
		pool = append(pool, 1000+i)
	}
	return pool
}

var pool = makePool()

func anyID(v any) int {
	for i, p := range pool {
		if reflect.DeepEqual(p, v) {
			return i
		}
	}
	return -1
}

var sentinels = map[string]error{
	"ErrInvalidIdentifier":                 builder.ErrInvalidIdentifier,
	"ErrInvalidType":                       builder.ErrInvalidType,
	"ErrNoConditionsGiven":                 builder.ErrNoConditionsGiven,
	"ErrFromItemLateralAndOnly":            builder.ErrFromItemLateralAndOnly,
	"ErrInsertValuesAndQuery":              builder.ErrInsertValuesAndQuery,
	"ErrInsertConflictConstraintAndTarget": builder.ErrInsertConflictConstraintAndTarget,
}

var repeat = 3

var optionOrders = [][]int{{0, 1, 2}, {1, 0, 2}, {2, 1, 0}, {0, 2, 1}, {1, 2, 0}, {2, 0, 1}}
var optionOrder int

// render renders w `repeat` times (fresh QueryBuilder each time, so Go's map iteration order
// varies) and reports any difference between the repetitions.
func render(w builder.SQLWriter, v, p bool, named map[string]int) Render {
	r := render1(w, v, p, named)
	for i := 1; i < repeat; i++ {
		r2 := render1(w, v, p, named)
		a, _ := json.Marshal(r)
		b, _ := json.Marshal(r2)
		if string(a) != string(b) {
			r.Unstable = string(b)
			break
		}
	}
	return r
}

func render1(w builder.SQLWriter, v, p bool, named map[string]int) (r Render) {
	r.V, r.P, r.Named = v, p, named
	defer func() {
		if e := recover(); e != nil {
			r.Panic = fmt.Sprint(e)
		}
	}()
	qb := builder.Build(w)
	// the option methods are applied in a different order on every call: the result must not depend on it
	steps := []func(){
		func() {
			if !v {
				qb = qb.WithoutValidation()
			}
		},
		func() {
			if p {
				qb = qb.PrettyPrint()
			}
		},
		func() {
			if named != nil {
				m := map[string]any{}
				for k, id := range named {
					m[k] = pool[id]
				}
				qb = qb.WithNamedArgs(m)
			}
		},
	}
	for _, i := range optionOrders[optionOrder%len(optionOrders)] {
		steps[i]()
	}
	optionOrder++
	sql, args, err := qb.ToSQL()
	r.SQL = hex.EncodeToString([]byte(sql))
	r.Args = []int{}
	for _, a := range args {
		r.Args = append(r.Args, anyID(a))
	}
	if err != nil {
		msg := err.Error()
		if strings.HasPrefix(msg, "missing named argument ") && sql == "" && args == nil {
			r.Missing = true
		}
		h := hex.EncodeToString([]byte(msg))
		if r.Missing {
			// which of several missing names is reported depends on Go's map order; the class does not
			h = hex.EncodeToString([]byte("missing named argument"))
		}
		r.Err = &h
		for name, s := range sentinels {
			if errors.Is(err, s) {
				r.ErrIs = append(r.ErrIs, name)
			}
		}
		sort.Strings(r.ErrIs)
	}
	return r
}

var bindRe = regexp.MustCompile(`\(bindExp s([0-9a-f]*)\)`)

func bindsOf(dumpText string) []string {
	seen := map[string]bool{}
	var out []string
	for _, m := range bindRe.FindAllStringSubmatch(dumpText, -1) {
		if !seen[m[1]] {
			seen[m[1]] = true
			out = append(out, m[1])
		}
	}
	return out
}

var sqlWriterType = reflect.TypeOf((*builder.SQLWriter)(nil)).Elem()

func main() {
	seed := flag.Int64("seed", 1, "PRNG seed")
	n := flag.Int("n", 100, "number of cases")
	depth := flag.Int("depth", 5, "maximum nesting depth")
	hostile := flag.Float64("hostile", 0.03, "probability of a hostile name")
	out := flag.String("out", "", "output file (default stdout)")
	flag.IntVar(&repeat, "repeat", 3, "number of times every rendering is repeated")
	binds := flag.Float64("binds", 0, "if > 0, boost Bind / Arg producers (share of expression leaves)")
	boost := flag.String("boost", "", "comma separated producer=factor weight multipliers")
	mode := flag.String("mode", "mixed", "generator: typed, structured, mixed, or a special mode (c06)")
	stride := flag.Int("stride", 1, "c07: use every stride-th boundary code point")
	reverse := flag.Bool("reverse", false, "c10: take the first rendering of every value in reverse order")
	maxLen := flag.Int("maxlen", 3, "c06: exhaustive strings up to this length over the critical alphabet")
	flag.Parse()

	w := os.Stdout
	if *out != "" {
		f, err := os.Create(*out)
		if err != nil {
			panic(err)
		}
		defer f.Close()
		w = f
	}
	if *mode == "c06" {
		runC06(w, *seed, *maxLen, *n)
		return
	}
	if *mode == "api" {
		runAPI(w, *seed, *n, *depth)
		return
	}
	if *mode == "c01" {
		runC01(w, *seed, *n)
		return
	}
	if *mode == "c02ctx" {
		runC02Ctx(w)
		return
	}
	if *mode == "c02" {
		runC02(w, *seed, *n, *depth, *stride)
		return
	}
	if *mode == "c05" {
		runC05(w, *seed, *n, *depth)
		return
	}
	if *mode == "c10" {
		runC10(w, *seed, *n, repeat, *reverse)
		return
	}
	if *mode == "c11" {
		runC11(w, *seed, *n, *depth)
		return
	}
	if *mode == "c07" {
		runC07(w, *seed, *n, *stride)
		return
	}
	if *mode == "c18" {
		runC18(w)
		return
	}
	if *mode == "c17" {
		runC17(w, *maxLen)
		return
	}
	if *mode == "c12" {
		runC12(w, *seed, *n, *hostile)
		return
	}
	if *mode == "c19" {
		runC19(w, *seed, *n)
		return
	}
	if *mode == "c16" {
		runC16(w, *seed, *maxLen, *n)
		return
	}
	enc := json.NewEncoder(w)
	g := gen.New(*seed, pool)
	g.Hostile = *hostile
	bm := map[string]float64{}
	if *binds > 0 {
		bm["qrb.Bind"], bm["qrb.Arg"], bm["qrb.Args"] = 60**binds, 40**binds, 10**binds
	}
	for _, kv := range strings.Split(*boost, ",") {
		if i := strings.IndexByte(kv, '='); i > 0 {
			var f float64
			fmt.Sscanf(kv[i+1:], "%g", &f)
			bm[kv[:i]] = f
		}
	}
	g.Boost(bm)
	d := &dump.Dumper{AnyID: anyID}

	var targets []reflect.Type
	for _, t := range g.Types() {
		if t.Implements(sqlWriterType) {
			targets = append(targets, t)
		}
	}
	sort.Slice(targets, func(i, j int) bool { return targets[i].String() < targets[j].String() })

	sg := &gen.S{G: g}
	wits := witnesses()
	for id := 0; id < *n; {
		var sw builder.SQLWriter
		var c Case
		dep := 1 + g.Rng.Intn(*depth)
		if id < len(wits) {
			sw = wits[id].W
			c = Case{ID: id, Gen: "witness", Type: "witness:" + wits[id].ID, Prog: wits[id].Prog}
		} else if *mode == "structured" || (*mode == "mixed" && id%2 == 1) {
			w, prog, kind := func() (w builder.SQLWriter, prog, kind string) {
				defer func() {
					if r := recover(); r != nil {
						g.Stats["derive-panic:structured"]++
						w = nil
					}
				}()
				return sg.Statement(dep)
			}()
			if w == nil {
				continue
			}
			sw = w
			c = Case{ID: id, Gen: "structured", Type: "structured." + kind, Prog: prog}
		} else {
			t := targets[g.Rng.Intn(len(targets))]
			val, ok := g.Gen(t, dep, "")
			if !ok {
				g.Stats["gen-failed"]++
				continue
			}
			sw = val.V.Interface().(builder.SQLWriter)
			c = Case{ID: id, Gen: "typed", Type: t.String(), Prog: val.Prog}
		}
		c.Dump = d.Value(sw)
		c.Binds = bindsOf(c.Dump)
		full := map[string]int{}
		for _, b := range c.Binds {
			name, _ := hex.DecodeString(b)
			full[string(name)] = anyID(pool[g.Rng.Intn(len(pool))])
		}
		for _, vp := range [][2]bool{{true, false}, {false, false}, {true, true}, {false, true}} {
			c.Renders = append(c.Renders, render(sw, vp[0], vp[1], full))
		}
		if len(c.Binds) > 0 {
			miss := map[string]int{}
			skip := g.Rng.Intn(len(c.Binds))
			for i, b := range c.Binds {
				if i != skip {
					name, _ := hex.DecodeString(b)
					miss[string(name)] = full[string(name)]
				}
			}
			c.Renders = append(c.Renders, render(sw, true, false, miss))
			c.Renders = append(c.Renders, render(sw, true, false, nil))
			extra := map[string]int{"zz-unused": 3}
			// unused names that differ from a used one by a sigil, case or blanks, carrying other values
			for k := range full {
				for _, nk := range []string{"@" + k, ":" + k, "$" + k, " " + k, k + " ", strings.ToUpper(k), strings.ToLower(k), strings.TrimPrefix(k, "@"), strings.TrimSpace(k)} {
					if _, used := full[nk]; !used {
						extra[nk] = anyID(pool[g.Rng.Intn(len(pool))])
					}
				}
			}
			for k, v := range full {
				extra[k] = v
			}
			c.Renders = append(c.Renders, render(sw, true, false, extra))
		}
		if err := enc.Encode(c); err != nil {
			panic(err)
		}
		id++
	}
	st, _ := json.Marshal(g.Stats)
	fmt.Fprintf(os.Stderr, "STATS %s\n", st)
}
