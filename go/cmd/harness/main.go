package main

import (
	"fmt"

	qrb "github.com/networkteam/qrb"
	"github.com/networkteam/qrb/fn"
	"verif/internal/dump"
)

func main() {
	d := &dump.Dumper{AnyID: func(v any) int { return 7 }}
	q := qrb.Select(qrb.N("a").Eq(qrb.Arg(1)), fn.Count(qrb.N("*")).Filter(qrb.N("x").IsNull())).From(qrb.N("t")).As("x").LeftJoin(qrb.N("u")).On(qrb.N("t.id").Eq(qrb.N("u.id"))).Where(qrb.N("b").Like(qrb.String("x%")).Escape('!')).Limit(qrb.Int(5))
	fmt.Println(d.Value(q))
	sql, args, err := qrb.Build(q).ToSQL()
	fmt.Println(sql, args, err)
}
