package main

// C17 mode: every refinement sequence up to a given length of every operator-capable builder x every
// inherited operator / predicate / cast method (enumerated by reflection from ExpBase).  The operand
// inside the larger expression must be exactly the refined value.

import (
	"encoding/hex"
	"encoding/json"
	"fmt"
	"io"
	"reflect"
	"strings"

	qrb "github.com/networkteam/qrb"
	"github.com/networkteam/qrb/builder"
	"github.com/networkteam/qrb/fn"
)

type c17Case struct {
	ID        int    `json:"id"`
	Builder   string `json:"builder"`
	Refine    string `json:"refine"`
	Method    string `json:"method"`
	Refined   string `json:"refined"`  // hex sql of the refined value alone
	ViaHandle string `json:"via"`      // hex sql of refined.Method(args)
	ViaWrap   string `json:"wrap"`     // hex sql of ExpBase{Exp: refined}.Method(args)
	HandleOK  bool   `json:"handle_ok"` // refined.Exp is a copy of refined (fields other than the handle)
	Panic     string `json:"panic,omitempty"`
}

type refinement struct {
	name string
	f    func(reflect.Value) (reflect.Value, bool) // applies if the method exists on the current type
}

func methodRef(name string, args ...any) refinement {
	return refinement{name, func(v reflect.Value) (reflect.Value, bool) {
		m := v.MethodByName(name)
		if !m.IsValid() || m.Type().NumIn() != len(args) && !m.Type().IsVariadic() {
			return v, false
		}
		in := make([]reflect.Value, len(args))
		for i, a := range args {
			in[i] = reflect.ValueOf(a)
		}
		return m.Call(in)[0], true
	}}
}

var zz = qrb.N("zz")

var refinements = []refinement{
	methodRef("Distinct"), methodRef("OrderBy", builder.Exp(qrb.N("o1"))), methodRef("Asc"), methodRef("Desc"),
	methodRef("NullsFirst"), methodRef("NullsLast"), methodRef("Filter", builder.Exp(qrb.N("flt"))),
	methodRef("WithinGroup"), methodRef("WithOrdinality"), methodRef("As", "al"),
	methodRef("ColumnDefinition", "c1", "int"),
}

func expBaseMethods() []string {
	t := reflect.TypeOf(builder.ExpBase{})
	var out []string
	for i := 0; i < t.NumMethod(); i++ {
		n := t.Method(i).Name
		if n == "IsExp" || n == "WriteSQL" {
			continue
		}
		out = append(out, n)
	}
	return out
}

func argFor(t reflect.Type) (reflect.Value, bool) {
	expT := reflect.TypeOf((*builder.Exp)(nil)).Elem()
	soeT := reflect.TypeOf((*builder.SelectOrExpressions)(nil)).Elem()
	switch {
	case t == reflect.TypeOf(builder.Operator("")):
		return reflect.ValueOf(builder.Operator("+")), true
	case t.Kind() == reflect.String:
		return reflect.ValueOf("text"), true
	case t == soeT:
		return reflect.ValueOf(qrb.Exps(zz)), true
	case t == expT:
		return reflect.ValueOf(builder.Exp(zz)), true
	}
	return reflect.Value{}, false
}

func sqlHex(w builder.SQLWriter) string {
	s, _, err := qrb.Build(w).ToSQL()
	if err != nil {
		return hex.EncodeToString([]byte(s)) + "|ERR " + err.Error()
	}
	return hex.EncodeToString([]byte(s))
}

func runC17(out io.Writer, maxLen int) {
	enc := json.NewEncoder(out)
	id := 0
	methods := expBaseMethods()
	bases := []struct {
		name string
		v    any
	}{
		{"FuncBuilder", qrb.Func("f", qrb.N("a"))},
		{"AggExpBuilder", fn.Count(qrb.N("a"))},
		{"AggExpBuilder(mode)", fn.Mode()},
		{"CaseExp", qrb.Case().When(qrb.N("c")).Then(qrb.N("r")).Else(qrb.N("e")).End()},
		{"CaseExp(expr)", qrb.Case(qrb.N("x")).When(qrb.Int(1)).Then(qrb.String("one")).End()},
		{"IdentExp", qrb.N("t.col")},
		{"fn.JsonToRecord", fn.JsonToRecord(qrb.N("j"))},
	}
	var rec func(base string, v reflect.Value, path []string, depth int)
	rec = func(base string, v reflect.Value, path []string, depth int) {
		refined := v.Interface()
		rw := refined.(builder.SQLWriter)
		expField := v.FieldByName("Exp") // promoted from the embedded ExpBase
		handleOK := false
		if expField.IsValid() && !expField.IsNil() {
			// the type-state wrapper OrderByAggExpBuilder only embeds its AggExpBuilder
			strip := func(d string) string {
				if strings.HasPrefix(d, "(OrderByAggExpBuilder ") {
					return d[len("(OrderByAggExpBuilder ") : len(d)-1]
				}
				return d
			}
			handleOK = strip(litDumper.ValueNoSelf(expField.Interface())) == strip(litDumper.ValueNoSelf(refined))
		}
		for _, mn := range methods {
			c := c17Case{ID: id, Builder: base, Refine: strings.Join(path, "."), Method: mn, HandleOK: handleOK}
			id++
			func() {
				defer func() {
					if e := recover(); e != nil {
						c.Panic = fmt.Sprint(e)
					}
				}()
				m := v.MethodByName(mn)
				wrapped := reflect.ValueOf(builder.ExpBase{Exp: refined.(builder.Exp)}).MethodByName(mn)
				var in []reflect.Value
				for j := 0; j < m.Type().NumIn(); j++ {
					a, ok := argFor(m.Type().In(j))
					if !ok {
						c.Panic = "no argument for " + m.Type().In(j).String()
						return
					}
					in = append(in, a)
				}
				c.Refined = sqlHex(rw)
				c.ViaHandle = sqlHex(m.Call(in)[0].Interface().(builder.SQLWriter))
				c.ViaWrap = sqlHex(wrapped.Call(in)[0].Interface().(builder.SQLWriter))
			}()
			enc.Encode(c)
		}
		if depth == maxLen {
			return
		}
		for _, r := range refinements {
			func() {
				defer func() { recover() }()
				nv, ok := r.f(v)
				if !ok {
					return
				}
				// only refinements that keep an operator-capable builder
				if _, isExp := nv.Interface().(builder.Exp); !isExp || !nv.FieldByName("Exp").IsValid() {
					return
				}
				rec(base, nv, append(path[:len(path):len(path)], r.name), depth+1)
			}()
		}
	}
	for _, b := range bases {
		rec(b.name, reflect.ValueOf(b.v), nil, 0)
	}
}
