// qrb2coq regenerates coq/Gen/*.v (and the harness registry) from the current /repo sources.
package main

import (
	"bytes"
	"flag"
	"fmt"
	"os"
)

func writeIfChanged(path, content string) error {
	old, err := os.ReadFile(path)
	if err == nil && bytes.Equal(old, []byte(content)) {
		return nil
	}
	return os.WriteFile(path, []byte(content), 0o644)
}

func main() {
	repo := flag.String("repo", "/repo", "path of the qrb working tree")
	out := flag.String("out", "/verif/coq/Gen", "output directory for generated Coq files")
	flag.Parse()
	if err := os.MkdirAll(*out, 0o755); err != nil {
		fmt.Fprintln(os.Stderr, err)
		os.Exit(2)
	}
	steps := []struct {
		name string
		f    func(string, string) error
	}{
		{"regex", genRegex},
		{"registry", genRegistry},
		{"ast", genAst},
	}
	failed := false
	for _, s := range steps {
		if err := s.f(*repo, *out); err != nil {
			fmt.Fprintf(os.Stderr, "qrb2coq: %s: %v\n", s.name, err)
			failed = true
		}
	}
	if failed {
		os.Exit(1)
	}
}
