package main

// Generic dump of every function declaration (with go/types facts where the package type-checks)
// into coq/Gen/Ast.v.  No analysis happens here: the Coq side interprets the terms.

import (
	"fmt"
	"go/ast"
	"go/importer"
	"go/printer"
	"go/token"
	"go/types"
	"path/filepath"
	"strings"
)

type astPkg struct{ dir, name, importPath string }

var astPkgs = []astPkg{
	{".", "qrb", "github.com/networkteam/qrb"},
	{"builder", "builder", "github.com/networkteam/qrb/builder"},
	{"fn", "fn", "github.com/networkteam/qrb/fn"},
	{"qrbpgx", "qrbpgx", "github.com/networkteam/qrb/qrbpgx"},
	{"qrbsql", "qrbsql", "github.com/networkteam/qrb/qrbsql"},
}

func coqStr(s string) string {
	var sb strings.Builder
	sb.WriteByte('"')
	for i := 0; i < len(s); i++ {
		c := s[i]
		if c == '"' {
			sb.WriteString(`""`)
		} else if c == 0 {
			sb.WriteString("\\0")
		} else {
			sb.WriteByte(c)
		}
	}
	sb.WriteByte('"')
	return sb.String()
}

func coqBool(b bool) string {
	if b {
		return "true"
	}
	return "false"
}

func coqList(items []string) string { return "[" + strings.Join(items, "; ") + "]" }

type astDumper struct {
	fset *token.FileSet
	info *types.Info // may be nil
}

func kindOf(t types.Type) string {
	if t == nil {
		return "unknown"
	}
	switch u := t.Underlying().(type) {
	case *types.Slice:
		return "slice"
	case *types.Map:
		return "map"
	case *types.Pointer:
		return "ptr"
	case *types.Struct:
		return "struct"
	case *types.Interface:
		if _, ok := t.(*types.TypeParam); ok {
			return "tparam"
		}
		return "iface"
	case *types.Signature:
		return "func"
	case *types.Basic:
		if u.Kind() == types.UntypedNil {
			return "nil"
		}
		return "basic"
	case *types.Array:
		return "array"
	case *types.Chan:
		return "chan"
	case *types.Tuple:
		return "tuple"
	}
	return "unknown"
}

func (d *astDumper) kind(e ast.Expr) string {
	if d.info == nil {
		return "unknown"
	}
	if tv, ok := d.info.Types[e]; ok {
		return kindOf(tv.Type)
	}
	if id, ok := e.(*ast.Ident); ok {
		if obj := d.info.ObjectOf(id); obj != nil {
			return kindOf(obj.Type())
		}
	}
	return "unknown"
}

func (d *astDumper) cls(id *ast.Ident, recvName string, params map[string]bool) string {
	if id.Name == "nil" {
		return "nil"
	}
	if d.info == nil {
		if id.Name == recvName && recvName != "" {
			return "recv"
		}
		if params[id.Name] {
			return "param"
		}
		return "unknown"
	}
	obj := d.info.ObjectOf(id)
	switch o := obj.(type) {
	case nil:
		return "unknown"
	case *types.Var:
		if o.IsField() {
			return "field"
		}
		if id.Name == recvName && recvName != "" {
			return "recv"
		}
		if o.Parent() != nil && o.Parent() == o.Pkg().Scope() {
			return "global"
		}
		if params[id.Name] {
			return "param"
		}
		return "local"
	case *types.Func:
		return "func"
	case *types.TypeName:
		return "type"
	case *types.Const:
		return "const"
	case *types.PkgName:
		return "pkg"
	case *types.Builtin:
		return "builtin"
	case *types.Nil:
		return "nil"
	}
	return "unknown"
}

func (d *astDumper) src(n ast.Node) string {
	var sb strings.Builder
	printer.Fprint(&sb, d.fset, n)
	return sb.String()
}

type fctx struct {
	recv   string
	params map[string]bool
}

func (d *astDumper) exprs(es []ast.Expr, c fctx) string {
	items := make([]string, len(es))
	for i, e := range es {
		items[i] = d.expr(e, c)
	}
	return coqList(items)
}

func (d *astDumper) expr(e ast.Expr, c fctx) string {
	switch x := e.(type) {
	case *ast.Ident:
		return fmt.Sprintf("GIdent %s %s %s", coqStr(x.Name), coqStr(d.kind(x)), coqStr(d.cls(x, c.recv, c.params)))
	case *ast.SelectorExpr:
		kind := d.kind(x)
		if d.info != nil {
			if sel, ok := d.info.Selections[x]; ok && sel.Kind() == types.MethodVal {
				kind = "mval"
				if fn, ok := sel.Obj().(*types.Func); ok {
					if sig, ok := fn.Type().(*types.Signature); ok && sig.Recv() != nil {
						if _, isPtr := sig.Recv().Type().(*types.Pointer); isPtr {
							kind = "mptr"
						}
						if _, isIface := sig.Recv().Type().Underlying().(*types.Interface); isIface {
							kind = "miface"
						}
					}
				}
			}
		}
		return fmt.Sprintf("GSel (%s) %s %s", d.expr(x.X, c), coqStr(x.Sel.Name), coqStr(kind))
	case *ast.CallExpr:
		return fmt.Sprintf("GCall (%s) %s %s %s", d.expr(x.Fun, c), d.exprs(x.Args, c), coqBool(x.Ellipsis.IsValid()), coqStr(d.kind(x)))
	case *ast.BinaryExpr:
		return fmt.Sprintf("GBin %s (%s) (%s)", coqStr(x.Op.String()), d.expr(x.X, c), d.expr(x.Y, c))
	case *ast.UnaryExpr:
		return fmt.Sprintf("GUn %s (%s)", coqStr(x.Op.String()), d.expr(x.X, c))
	case *ast.StarExpr:
		return fmt.Sprintf("GStar (%s)", d.expr(x.X, c))
	case *ast.BasicLit:
		val := x.Value
		if x.Kind == token.STRING {
			if u, err := unquote(val); err == nil {
				val = u
			}
		}
		return fmt.Sprintf("GLit %s %s", coqStr(x.Kind.String()), coqStr(val))
	case *ast.CompositeLit:
		ty := "GOtherE \"\""
		if x.Type != nil {
			ty = "GTypeExpr " + coqStr(d.src(x.Type))
		}
		return fmt.Sprintf("GComposite (%s) %s %s", ty, d.exprs(x.Elts, c), coqStr(d.kind(x)))
	case *ast.KeyValueExpr:
		return fmt.Sprintf("GKV (%s) (%s)", d.expr(x.Key, c), d.expr(x.Value, c))
	case *ast.IndexExpr:
		return fmt.Sprintf("GIndex (%s) (%s) %s", d.expr(x.X, c), d.expr(x.Index, c), coqStr(d.kind(x)))
	case *ast.IndexListExpr:
		return fmt.Sprintf("GIndex (%s) (GOtherE \"typeargs\") %s", d.expr(x.X, c), coqStr(d.kind(x)))
	case *ast.SliceExpr:
		return fmt.Sprintf("GSlice (%s) %s", d.expr(x.X, c), coqStr(d.kind(x)))
	case *ast.ParenExpr:
		return fmt.Sprintf("GParen (%s)", d.expr(x.X, c))
	case *ast.TypeAssertExpr:
		ty := "GOtherE \"type\""
		if x.Type != nil {
			ty = "GTypeExpr " + coqStr(d.src(x.Type))
		}
		return fmt.Sprintf("GTypeAssert (%s) (%s)", d.expr(x.X, c), ty)
	case *ast.FuncLit:
		return fmt.Sprintf("GFuncLit %s", d.stmts(x.Body.List, c))
	case *ast.ArrayType, *ast.MapType, *ast.FuncType, *ast.InterfaceType, *ast.StructType, *ast.ChanType, *ast.Ellipsis:
		return "GTypeExpr " + coqStr(d.src(e))
	}
	return "GOtherE " + coqStr(fmt.Sprintf("%T", e))
}

func (d *astDumper) stmts(ss []ast.Stmt, c fctx) string {
	items := make([]string, 0, len(ss))
	for _, s := range ss {
		items = append(items, d.stmt(s, c))
	}
	return coqList(items)
}

func (d *astDumper) optStmt(s ast.Stmt, c fctx) string {
	if s == nil {
		return "[]"
	}
	return coqList([]string{d.stmt(s, c)})
}

func (d *astDumper) optExpr(e ast.Expr, c fctx) string {
	if e == nil {
		return "None"
	}
	return "(Some (" + d.expr(e, c) + "))"
}

func (d *astDumper) stmt(s ast.Stmt, c fctx) string {
	switch x := s.(type) {
	case *ast.AssignStmt:
		return fmt.Sprintf("GAssign %s %s %s", d.exprs(x.Lhs, c), coqStr(x.Tok.String()), d.exprs(x.Rhs, c))
	case *ast.IfStmt:
		els := "[]"
		if x.Else != nil {
			switch e := x.Else.(type) {
			case *ast.BlockStmt:
				els = d.stmts(e.List, c)
			default:
				els = coqList([]string{d.stmt(e, c)})
			}
		}
		return fmt.Sprintf("GIf %s (%s) %s %s", d.optStmt(x.Init, c), d.expr(x.Cond, c), d.stmts(x.Body.List, c), els)
	case *ast.ReturnStmt:
		return "GReturn " + d.exprs(x.Results, c)
	case *ast.ExprStmt:
		return fmt.Sprintf("GExprStmt (%s)", d.expr(x.X, c))
	case *ast.ForStmt:
		return fmt.Sprintf("GFor %s %s %s %s", d.optStmt(x.Init, c), d.optExpr(x.Cond, c), d.optStmt(x.Post, c), d.stmts(x.Body.List, c))
	case *ast.RangeStmt:
		return fmt.Sprintf("GRange %s %s %s (%s) %s", d.optExpr(x.Key, c), d.optExpr(x.Value, c), coqStr(x.Tok.String()), d.expr(x.X, c), d.stmts(x.Body.List, c))
	case *ast.DeclStmt:
		gd, ok := x.Decl.(*ast.GenDecl)
		if ok && gd.Tok == token.VAR && len(gd.Specs) == 1 {
			vs := gd.Specs[0].(*ast.ValueSpec)
			var names []string
			for _, n := range vs.Names {
				names = append(names, coqStr(n.Name))
			}
			ty := ""
			if vs.Type != nil {
				ty = d.src(vs.Type)
			}
			return fmt.Sprintf("GVarDecl %s %s %s", coqList(names), coqStr(ty), d.exprs(vs.Values, c))
		}
		if ok && gd.Tok == token.CONST {
			return "GBlock []"
		}
		return "GOtherS \"decl\""
	case *ast.IncDecStmt:
		return fmt.Sprintf("GIncDec (%s) %s", d.expr(x.X, c), coqStr(x.Tok.String()))
	case *ast.BlockStmt:
		return "GBlock " + d.stmts(x.List, c)
	case *ast.SwitchStmt:
		var body []ast.Stmt
		for _, cc := range x.Body.List {
			body = append(body, cc.(*ast.CaseClause).Body...)
		}
		return fmt.Sprintf("GSwitch \"switch\" %s", d.stmts(body, c))
	case *ast.TypeSwitchStmt:
		var body []ast.Stmt
		for _, cc := range x.Body.List {
			body = append(body, cc.(*ast.CaseClause).Body...)
		}
		return fmt.Sprintf("GSwitch %s %s", coqStr("typeswitch "+d.src(x.Assign)), d.stmts(body, c))
	case *ast.EmptyStmt:
		return "GBlock []"
	case *ast.BranchStmt:
		if x.Tok == token.BREAK || x.Tok == token.CONTINUE {
			return "GBlock []"
		}
		return "GOtherS " + coqStr("branch "+x.Tok.String())
	}
	return "GOtherS " + coqStr(fmt.Sprintf("%T", s))
}

func unquote(s string) (string, error) {
	if len(s) >= 2 && s[0] == '`' {
		return s[1 : len(s)-1], nil
	}
	return strconvUnquote(s)
}

func (d *astDumper) params(fl *ast.FieldList, info *types.Info) string {
	if fl == nil {
		return "[]"
	}
	var items []string
	for _, f := range fl.List {
		ty := d.src(f.Type)
		_, variadic := f.Type.(*ast.Ellipsis)
		kind := "unknown"
		if info != nil {
			if tv, ok := info.Types[f.Type]; ok {
				kind = kindOf(tv.Type)
			}
			if variadic {
				kind = "slice"
			}
		}
		names := f.Names
		if len(names) == 0 {
			names = []*ast.Ident{{Name: "_"}}
		}
		for _, n := range names {
			items = append(items, fmt.Sprintf("mkParam %s %s %s %s", coqStr(n.Name), coqStr(ty), coqStr(kind), coqBool(variadic)))
		}
	}
	return coqList(items)
}

func genAst(repo, outDir string) error {
	var sb strings.Builder
	sb.WriteString("(* GENERATED by qrb2coq from the current /repo tree - do not edit *)\n")
	sb.WriteString("From Coq Require Import String List Bool.\nFrom QRB Require Import Meta.GoAst.\nImport ListNotations.\nLocal Open Scope string_scope.\n\n")
	var allNames, varDefs, structDefs []string
	for _, p := range astPkgs {
		fset, files, err := parsePkgFiles(repo, p.dir)
		if err != nil {
			return err
		}
		d := &astDumper{fset: fset}
		// type-check where possible (the adapter packages import modules that the source importer cannot always load)
		info := &types.Info{Types: map[ast.Expr]types.TypeAndValue{}, Defs: map[*ast.Ident]types.Object{}, Uses: map[*ast.Ident]types.Object{},
			Selections: map[*ast.SelectorExpr]*types.Selection{}}
		conf := types.Config{Importer: importer.ForCompiler(fset, "source", nil), Error: func(error) {}}
		if pkg, err := conf.Check(p.importPath, fset, files, info); err == nil && pkg != nil {
			d.info = info
		} else if p.name == "builder" || p.name == "fn" || p.name == "qrb" {
			return fmt.Errorf("type-checking %s failed: %v", p.importPath, err)
		}
		// struct types
		for _, f := range files {
			for _, decl := range f.Decls {
				gd, ok := decl.(*ast.GenDecl)
				if !ok || gd.Tok != token.TYPE {
					continue
				}
				for _, s := range gd.Specs {
					ts := s.(*ast.TypeSpec)
					st, ok := ts.Type.(*ast.StructType)
					if !ok {
						continue
					}
					var fields []string
					for _, fl := range st.Fields.List {
						ty := d.src(fl.Type)
						if len(fl.Names) == 0 {
							name := ty
							if i := strings.LastIndexByte(name, '.'); i >= 0 {
								name = name[i+1:]
							}
							name = strings.TrimPrefix(name, "*")
							fields = append(fields, fmt.Sprintf("mkField %s %s true", coqStr(name), coqStr(ty)))
						}
						for _, n := range fl.Names {
							fields = append(fields, fmt.Sprintf("mkField %s %s false", coqStr(n.Name), coqStr(ty)))
						}
					}
					structDefs = append(structDefs, fmt.Sprintf("mkStruct %s %s %s", coqStr(p.name), coqStr(ts.Name.Name), coqList(fields)))
				}
			}
		}
		// package-level variables and constants
		for _, f := range files {
			for _, decl := range f.Decls {
				gd, ok := decl.(*ast.GenDecl)
				if !ok || (gd.Tok != token.VAR && gd.Tok != token.CONST) {
					continue
				}
				for _, s := range gd.Specs {
					vs := s.(*ast.ValueSpec)
					for ni, n := range vs.Names {
						kind, ty := "unknown", ""
						val := ""
						if ni < len(vs.Values) {
							if bl, ok := vs.Values[ni].(*ast.BasicLit); ok && bl.Kind == token.STRING {
								if u, err := unquote(bl.Value); err == nil {
									val = u
								}
							}
						}
						if d.info != nil {
							if obj := d.info.ObjectOf(n); obj != nil {
								kind, ty = kindOf(obj.Type()), obj.Type().String()
							}
						}
						varDefs = append(varDefs, fmt.Sprintf("mkVar %s %s %s %s %s %s", coqStr(p.name), coqStr(n.Name), coqStr(ty), coqStr(kind), coqBool(gd.Tok == token.CONST), coqStr(val)))
					}
				}
			}
		}
		for _, f := range files {
			fileName := filepath.Base(fset.Position(f.Pos()).Filename)
			for _, decl := range f.Decls {
				fd, ok := decl.(*ast.FuncDecl)
				if !ok {
					continue
				}
				recv, recvName, recvPtr := "", "", false
				if fd.Recv != nil && len(fd.Recv.List) > 0 {
					recv = recvTypeName(fd)
					if len(fd.Recv.List[0].Names) > 0 {
						recvName = fd.Recv.List[0].Names[0].Name
					}
					_, recvPtr = fd.Recv.List[0].Type.(*ast.StarExpr)
				}
				c := fctx{recv: recvName, params: map[string]bool{}}
				for _, n := range paramNames(fd.Type) {
					c.params[n] = true
				}
				body := "[]"
				if fd.Body != nil {
					body = d.stmts(fd.Body.List, c)
				}
				doc := ""
				if fd.Doc != nil {
					doc = fd.Doc.Text()
				}
				name := fmt.Sprintf("fn_%s_%s_%s", p.name, recv, fd.Name.Name)
				allNames = append(allNames, name)
				fmt.Fprintf(&sb, "Definition %s : gfunc :=\n  mkFunc %s %s %s %s %s %s %s\n    %s\n    %s\n    %s\n    %s.\n\n",
					name, coqStr(p.name), coqStr(fileName), coqStr(recv), coqStr(recvName), coqBool(recvPtr), coqStr(fd.Name.Name),
					coqBool(fd.Name.IsExported()), d.params(fd.Type.Params, d.info), d.params(fd.Type.Results, d.info), body, coqStr(doc))
			}
		}
	}
	fmt.Fprintf(&sb, "Definition all_funcs : list gfunc :=\n  %s.\n\n", coqList(allNames))
	fmt.Fprintf(&sb, "Definition all_vars : list gvar :=\n  %s.\n\n", coqList(varDefs))
	fmt.Fprintf(&sb, "Definition all_structs : list gstruct :=\n  %s.\n", coqList(structDefs))
	return writeIfChanged(filepath.Join(outDir, "Ast.v"), sb.String())
}
