package main

// Translation of the two validation patterns of builder/ident.go and builder/types.go into the
// regular-expression AST of coq/Meta/Regex.v.  The pattern text is taken from the source (the
// argument of regexp.MustCompile, a concatenation of string literals), parsed with regexp/syntax
// under the flags regexp.MustCompile uses (syntax.Perl), and emitted node by node.

import (
	"fmt"
	"go/ast"
	"go/parser"
	"go/token"
	"path/filepath"
	"regexp"
	"regexp/syntax"
	"sort"
	"strconv"
	"strings"
)

var clsRe = regexp.MustCompile(`CLS:(cls_[0-9]+)`)

func evalStringExpr(e ast.Expr) (string, error) {
	switch x := e.(type) {
	case *ast.BasicLit:
		if x.Kind != token.STRING {
			return "", fmt.Errorf("not a string literal")
		}
		return strconv.Unquote(x.Value)
	case *ast.BinaryExpr:
		if x.Op != token.ADD {
			return "", fmt.Errorf("unexpected operator %s", x.Op)
		}
		a, err := evalStringExpr(x.X)
		if err != nil {
			return "", err
		}
		b, err := evalStringExpr(x.Y)
		if err != nil {
			return "", err
		}
		return a + b, nil
	case *ast.ParenExpr:
		return evalStringExpr(x.X)
	}
	return "", fmt.Errorf("unsupported expression %T", e)
}

// findPattern returns the pattern text of `var <name> = regexp.MustCompile(...)` in file.
func findPattern(file, name string) (string, error) {
	fset := token.NewFileSet()
	f, err := parser.ParseFile(fset, file, nil, 0)
	if err != nil {
		return "", err
	}
	for _, d := range f.Decls {
		gd, ok := d.(*ast.GenDecl)
		if !ok || gd.Tok != token.VAR {
			continue
		}
		for _, s := range gd.Specs {
			vs := s.(*ast.ValueSpec)
			for i, n := range vs.Names {
				if n.Name != name || i >= len(vs.Values) {
					continue
				}
				call, ok := vs.Values[i].(*ast.CallExpr)
				if !ok {
					return "", fmt.Errorf("%s is not a call", name)
				}
				sel, ok := call.Fun.(*ast.SelectorExpr)
				if !ok || sel.Sel.Name != "MustCompile" || len(call.Args) != 1 {
					return "", fmt.Errorf("%s is not regexp.MustCompile(pattern)", name)
				}
				if id, ok := sel.X.(*ast.Ident); !ok || id.Name != "regexp" {
					return "", fmt.Errorf("%s is not regexp.MustCompile(pattern)", name)
				}
				return evalStringExpr(call.Args[0])
			}
		}
	}
	return "", fmt.Errorf("variable %s not found in %s", name, file)
}

type reEmitter struct {
	classes  []string       // Coq text of distinct classes
	index    map[string]int // class key -> index
	runeSets [][]rune       // the rune ranges of every distinct class (for the minterm computation)
	keys     []string
}

func classKey(r []rune) string {
	var sb strings.Builder
	for _, x := range r {
		fmt.Fprintf(&sb, "%d,", x)
	}
	return sb.String()
}

// class registers a class and returns its name; the Coq text is produced later (finish), when the
// minterms of all classes are known.
func (em *reEmitter) class(r []rune) string {
	k := classKey(r)
	if idx, ok := em.index[k]; ok {
		return fmt.Sprintf("cls_%d", idx)
	}
	idx := len(em.runeSets)
	em.index[k] = idx
	em.runeSets = append(em.runeSets, append([]rune{}, r...))
	em.keys = append(em.keys, k)
	return fmt.Sprintf("cls_%d", idx)
}

func inRuneSet(r []rune, c rune) bool {
	for i := 0; i+1 < len(r); i += 2 {
		if r[i] <= c && c <= r[i+1] {
			return true
		}
	}
	return false
}

// minterms partitions the non-ASCII code points by membership in every registered class.
// Returns the table (lo, hi, id) and, per class, the ids it contains.  Id 0 is the minterm of
// code points contained in no class.
func (em *reEmitter) minterms() (table [][3]int64, perClass [][]int) {
	bset := map[rune]bool{128: true, 0x110000: true}
	for _, r := range em.runeSets {
		for i := 0; i+1 < len(r); i += 2 {
			if r[i] >= 128 {
				bset[r[i]] = true
			}
			if r[i+1]+1 >= 128 {
				bset[r[i+1]+1] = true
			}
		}
	}
	var bounds []rune
	for b := range bset {
		if b >= 128 && b <= 0x110000 {
			bounds = append(bounds, b)
		}
	}
	sort.Slice(bounds, func(i, j int) bool { return bounds[i] < bounds[j] })
	sigID := map[string]int{}
	zero := strings.Repeat("0", len(em.runeSets))
	sigID[zero] = 0
	perClass = make([][]int, len(em.runeSets))
	seenInClass := make([]map[int]bool, len(em.runeSets))
	for i := range seenInClass {
		seenInClass[i] = map[int]bool{}
	}
	for i := 0; i+1 < len(bounds); i++ {
		lo, hi := bounds[i], bounds[i+1]-1
		var sb strings.Builder
		for _, r := range em.runeSets {
			if inRuneSet(r, lo) {
				sb.WriteByte('1')
			} else {
				sb.WriteByte('0')
			}
		}
		sig := sb.String()
		id, ok := sigID[sig]
		if !ok {
			id = len(sigID)
			sigID[sig] = id
		}
		if n := len(table); n > 0 && table[n-1][2] == int64(id) && table[n-1][1]+1 == int64(lo) {
			table[n-1][1] = int64(hi)
		} else {
			table = append(table, [3]int64{int64(lo), int64(hi), int64(id)})
		}
		for ci := range em.runeSets {
			if sig[ci] == '1' && !seenInClass[ci][id] {
				seenInClass[ci][id] = true
				perClass[ci] = append(perClass[ci], id)
			}
		}
	}
	for ci := range perClass {
		sort.Ints(perClass[ci])
	}
	return table, perClass
}

// stripAnchors removes a leading \A and a trailing \z (looking through capture groups and
// concatenations) and reports whether they were present.
func stripAnchors(re *syntax.Regexp) (core *syntax.Regexp, begin, end bool) {
	switch re.Op {
	case syntax.OpCapture:
		c, b, e := stripAnchors(re.Sub[0])
		return c, b, e
	case syntax.OpConcat:
		subs := append([]*syntax.Regexp{}, re.Sub...)
		if len(subs) > 0 {
			if subs[0].Op == syntax.OpBeginText {
				begin = true
				subs = subs[1:]
			} else if c, b, _ := stripAnchors(subs[0]); b && subs[0].Op != syntax.OpConcat {
				_ = c
			}
		}
		if len(subs) > 0 {
			last := subs[len(subs)-1]
			if last.Op == syntax.OpEndText {
				end = true
				subs = subs[:len(subs)-1]
			} else if last.Op == syntax.OpCapture || last.Op == syntax.OpConcat {
				c, b, e := stripAnchors(last)
				if e && !b {
					end = true
					subs[len(subs)-1] = c
				}
			}
		}
		if len(subs) == 1 && !begin {
			// \A may be inside the first element as well
		}
		n := *re
		n.Sub = subs
		return &n, begin, end
	}
	return re, false, false
}

func (em *reEmitter) emit(re *syntax.Regexp) (string, error) {
	switch re.Op {
	case syntax.OpNoMatch:
		return "Nul", nil
	case syntax.OpEmptyMatch:
		return "Eps", nil
	case syntax.OpLiteral:
		if re.Flags&syntax.FoldCase != 0 {
			return "", fmt.Errorf("case-folded literal not supported")
		}
		parts := make([]string, len(re.Rune))
		for i, r := range re.Rune {
			parts[i] = "CLS:" + em.class([]rune{r, r})
		}
		return foldr("Cat", parts, "Eps"), nil
	case syntax.OpCharClass:
		return "CLS:" + em.class(re.Rune), nil
	case syntax.OpAnyChar:
		return "CLS:" + em.class([]rune{0, 0x10FFFF}), nil
	case syntax.OpAnyCharNotNL:
		return "CLS:" + em.class([]rune{0, 9, 11, 0x10FFFF}), nil
	case syntax.OpCapture:
		return em.emit(re.Sub[0])
	case syntax.OpConcat, syntax.OpAlternate:
		parts := make([]string, len(re.Sub))
		for i, s := range re.Sub {
			p, err := em.emit(s)
			if err != nil {
				return "", err
			}
			parts[i] = p
		}
		if re.Op == syntax.OpConcat {
			return foldr("Cat", parts, "Eps"), nil
		}
		return foldr("Alt", parts, "Nul"), nil
	case syntax.OpStar:
		p, err := em.emit(re.Sub[0])
		return "Star (" + p + ")", err
	case syntax.OpPlus:
		p, err := em.emit(re.Sub[0])
		return "Cat (" + p + ") (Star (" + p + "))", err
	case syntax.OpQuest:
		p, err := em.emit(re.Sub[0])
		return "Alt Eps (" + p + ")", err
	case syntax.OpRepeat:
		p, err := em.emit(re.Sub[0])
		if err != nil {
			return "", err
		}
		if re.Max < 0 {
			return fmt.Sprintf("Cat (Rep (%s) %d %d) (Star (%s))", p, re.Min, re.Min, p), nil
		}
		return fmt.Sprintf("Rep (%s) %d %d", p, re.Min, re.Max), nil
	}
	return "", fmt.Errorf("unsupported regexp node %s (anchors and word boundaries are only accepted as \\A at the start and \\z at the end)", re.Op)
}

func strconvUnquote(s string) (string, error) { return strconv.Unquote(s) }

func foldr(op string, parts []string, unit string) string {
	if len(parts) == 0 {
		return unit
	}
	if len(parts) == 1 {
		return parts[0]
	}
	return op + " (" + parts[0] + ") (" + foldr(op, parts[1:], unit) + ")"
}

func genRegex(repo, outDir string) error {
	type pat struct{ coqName, file, varName string }
	pats := []pat{
		{"ident_re", filepath.Join(repo, "builder", "ident.go"), "validIdentifierRegex"},
		{"type_re", filepath.Join(repo, "builder", "types.go"), "validTypeRegex"},
	}
	em := &reEmitter{index: map[string]int{}}
	_ = em.classes
	var defs []string
	var srcs []string
	for _, p := range pats {
		src, err := findPattern(p.file, p.varName)
		if err != nil {
			return err
		}
		re, err := syntax.Parse(src, syntax.Perl)
		if err != nil {
			return err
		}
		core, b, e := stripAnchors(re)
		body, err := em.emit(core)
		if err != nil {
			return fmt.Errorf("%s: %v", p.varName, err)
		}
		any := "Star (CLS:" + em.class([]rune{0, 0x10FFFF}) + ")"
		if !b {
			body = "Cat (" + any + ") (" + body + ")"
		}
		if !e {
			body = "Cat (" + body + ") (" + any + ")"
		}
		body = clsRe.ReplaceAllString(body, "Cls ${1}_a ${1}_m")
		defs = append(defs, fmt.Sprintf("Definition %s : re :=\n  %s.\n", p.coqName, body))
		srcs = append(srcs, fmt.Sprintf("Definition %s_src_hex : string := \"%x\"%%string.\n", p.coqName, src))
	}
	var sb strings.Builder
	sb.WriteString("(* GENERATED by qrb2coq from builder/ident.go and builder/types.go - do not edit *)\n")
	sb.WriteString("From Coq Require Import List String NArith.\nFrom QRB Require Import Meta.Regex.\nImport ListNotations.\n\n")
	table, perClass := em.minterms()
	sb.WriteString("Definition minterm_table : list (N * N * nat) :=\n  [")
	for i, t := range table {
		if i > 0 {
			sb.WriteString("; ")
		}
		fmt.Fprintf(&sb, "(%d%%N, %d%%N, %d)", t[0], t[1], t[2])
	}
	sb.WriteString("].\n\n")
	for i, r := range em.runeSets {
		var ascii []string
		for k := 0; k+1 < len(r); k += 2 {
			lo, hi := r[k], r[k+1]
			if lo > 127 {
				continue
			}
			if hi > 127 {
				hi = 127
			}
			ascii = append(ascii, fmt.Sprintf("(%d, %d)", lo, hi))
		}
		var ids []string
		for _, id := range perClass[i] {
			ids = append(ids, fmt.Sprint(id))
		}
		fmt.Fprintf(&sb, "Definition cls_%d_a : list (N * N) := [%s]%%N.\nDefinition cls_%d_m : list nat := [%s].\n",
			i, strings.Join(ascii, "; "), i, strings.Join(ids, "; "))
	}
	sb.WriteString("\n")
	for _, d := range defs {
		sb.WriteString(d)
	}
	for _, s := range srcs {
		sb.WriteString(s)
	}
	return writeIfChanged(filepath.Join(outDir, "Regex.v"), sb.String())
}
