package main

// Translation of the two validation patterns of builder/ident.go and builder/types.go into the
// regular-expression AST of coq/Meta/Regex.v.  The pattern text is taken from the source (the
// argument of regexp.MustCompile, a concatenation of string literals), parsed with regexp/syntax
// under the flags regexp.MustCompile uses (syntax.Perl), and emitted node by node.

import (
	"fmt"
	"go/ast"
	"go/parser"
	"go/token"
	"path/filepath"
	"regexp/syntax"
	"strconv"
	"strings"
)

func evalStringExpr(e ast.Expr) (string, error) {
	switch x := e.(type) {
	case *ast.BasicLit:
		if x.Kind != token.STRING {
			return "", fmt.Errorf("not a string literal")
		}
		return strconv.Unquote(x.Value)
	case *ast.BinaryExpr:
		if x.Op != token.ADD {
			return "", fmt.Errorf("unexpected operator %s", x.Op)
		}
		a, err := evalStringExpr(x.X)
		if err != nil {
			return "", err
		}
		b, err := evalStringExpr(x.Y)
		if err != nil {
			return "", err
		}
		return a + b, nil
	case *ast.ParenExpr:
		return evalStringExpr(x.X)
	}
	return "", fmt.Errorf("unsupported expression %T", e)
}

// findPattern returns the pattern text of `var <name> = regexp.MustCompile(...)` in file.
func findPattern(file, name string) (string, error) {
	fset := token.NewFileSet()
	f, err := parser.ParseFile(fset, file, nil, 0)
	if err != nil {
		return "", err
	}
	for _, d := range f.Decls {
		gd, ok := d.(*ast.GenDecl)
		if !ok || gd.Tok != token.VAR {
			continue
		}
		for _, s := range gd.Specs {
			vs := s.(*ast.ValueSpec)
			for i, n := range vs.Names {
				if n.Name != name || i >= len(vs.Values) {
					continue
				}
				call, ok := vs.Values[i].(*ast.CallExpr)
				if !ok {
					return "", fmt.Errorf("%s is not a call", name)
				}
				sel, ok := call.Fun.(*ast.SelectorExpr)
				if !ok || sel.Sel.Name != "MustCompile" || len(call.Args) != 1 {
					return "", fmt.Errorf("%s is not regexp.MustCompile(pattern)", name)
				}
				if id, ok := sel.X.(*ast.Ident); !ok || id.Name != "regexp" {
					return "", fmt.Errorf("%s is not regexp.MustCompile(pattern)", name)
				}
				return evalStringExpr(call.Args[0])
			}
		}
	}
	return "", fmt.Errorf("variable %s not found in %s", name, file)
}

type reEmitter struct {
	classes []string          // Coq text of distinct classes
	index   map[string]int    // class text -> index
}

func (em *reEmitter) class(r []rune) string {
	var sb strings.Builder
	sb.WriteString("[")
	for i := 0; i+1 < len(r); i += 2 {
		if i > 0 {
			sb.WriteString("; ")
		}
		fmt.Fprintf(&sb, "(%d, %d)", r[i], r[i+1])
	}
	sb.WriteString("]%N")
	txt := sb.String()
	if idx, ok := em.index[txt]; ok {
		return fmt.Sprintf("cls_%d", idx)
	}
	idx := len(em.classes)
	em.classes = append(em.classes, txt)
	em.index[txt] = idx
	return fmt.Sprintf("cls_%d", idx)
}

// stripAnchors removes a leading \A and a trailing \z (looking through capture groups and
// concatenations) and reports whether they were present.
func stripAnchors(re *syntax.Regexp) (core *syntax.Regexp, begin, end bool) {
	switch re.Op {
	case syntax.OpCapture:
		c, b, e := stripAnchors(re.Sub[0])
		return c, b, e
	case syntax.OpConcat:
		subs := append([]*syntax.Regexp{}, re.Sub...)
		if len(subs) > 0 {
			if subs[0].Op == syntax.OpBeginText {
				begin = true
				subs = subs[1:]
			} else if c, b, _ := stripAnchors(subs[0]); b && subs[0].Op != syntax.OpConcat {
				_ = c
			}
		}
		if len(subs) > 0 {
			last := subs[len(subs)-1]
			if last.Op == syntax.OpEndText {
				end = true
				subs = subs[:len(subs)-1]
			} else if last.Op == syntax.OpCapture || last.Op == syntax.OpConcat {
				c, b, e := stripAnchors(last)
				if e && !b {
					end = true
					subs[len(subs)-1] = c
				}
			}
		}
		if len(subs) == 1 && !begin {
			// \A may be inside the first element as well
		}
		n := *re
		n.Sub = subs
		return &n, begin, end
	}
	return re, false, false
}

func (em *reEmitter) emit(re *syntax.Regexp) (string, error) {
	switch re.Op {
	case syntax.OpNoMatch:
		return "Nul", nil
	case syntax.OpEmptyMatch:
		return "Eps", nil
	case syntax.OpLiteral:
		if re.Flags&syntax.FoldCase != 0 {
			return "", fmt.Errorf("case-folded literal not supported")
		}
		parts := make([]string, len(re.Rune))
		for i, r := range re.Rune {
			parts[i] = "Cls " + em.class([]rune{r, r})
		}
		return foldr("Cat", parts, "Eps"), nil
	case syntax.OpCharClass:
		return "Cls " + em.class(re.Rune), nil
	case syntax.OpAnyChar:
		return "Cls " + em.class([]rune{0, 0x10FFFF}), nil
	case syntax.OpAnyCharNotNL:
		return "Cls " + em.class([]rune{0, 9, 11, 0x10FFFF}), nil
	case syntax.OpCapture:
		return em.emit(re.Sub[0])
	case syntax.OpConcat, syntax.OpAlternate:
		parts := make([]string, len(re.Sub))
		for i, s := range re.Sub {
			p, err := em.emit(s)
			if err != nil {
				return "", err
			}
			parts[i] = p
		}
		if re.Op == syntax.OpConcat {
			return foldr("Cat", parts, "Eps"), nil
		}
		return foldr("Alt", parts, "Nul"), nil
	case syntax.OpStar:
		p, err := em.emit(re.Sub[0])
		return "Star (" + p + ")", err
	case syntax.OpPlus:
		p, err := em.emit(re.Sub[0])
		return "Cat (" + p + ") (Star (" + p + "))", err
	case syntax.OpQuest:
		p, err := em.emit(re.Sub[0])
		return "Alt Eps (" + p + ")", err
	case syntax.OpRepeat:
		p, err := em.emit(re.Sub[0])
		if err != nil {
			return "", err
		}
		if re.Max < 0 {
			return fmt.Sprintf("Cat (Rep (%s) %d %d) (Star (%s))", p, re.Min, re.Min, p), nil
		}
		return fmt.Sprintf("Rep (%s) %d %d", p, re.Min, re.Max), nil
	}
	return "", fmt.Errorf("unsupported regexp node %s (anchors and word boundaries are only accepted as \\A at the start and \\z at the end)", re.Op)
}

func strconvUnquote(s string) (string, error) { return strconv.Unquote(s) }

func foldr(op string, parts []string, unit string) string {
	if len(parts) == 0 {
		return unit
	}
	if len(parts) == 1 {
		return parts[0]
	}
	return op + " (" + parts[0] + ") (" + foldr(op, parts[1:], unit) + ")"
}

func genRegex(repo, outDir string) error {
	type pat struct{ coqName, file, varName string }
	pats := []pat{
		{"ident_re", filepath.Join(repo, "builder", "ident.go"), "validIdentifierRegex"},
		{"type_re", filepath.Join(repo, "builder", "types.go"), "validTypeRegex"},
	}
	em := &reEmitter{index: map[string]int{}}
	var defs []string
	var srcs []string
	for _, p := range pats {
		src, err := findPattern(p.file, p.varName)
		if err != nil {
			return err
		}
		re, err := syntax.Parse(src, syntax.Perl)
		if err != nil {
			return err
		}
		core, b, e := stripAnchors(re)
		body, err := em.emit(core)
		if err != nil {
			return fmt.Errorf("%s: %v", p.varName, err)
		}
		any := "Star (Cls " + em.class([]rune{0, 0x10FFFF}) + ")"
		if !b {
			body = "Cat (" + any + ") (" + body + ")"
		}
		if !e {
			body = "Cat (" + body + ") (" + any + ")"
		}
		defs = append(defs, fmt.Sprintf("Definition %s : re :=\n  %s.\n", p.coqName, body))
		srcs = append(srcs, fmt.Sprintf("Definition %s_src_hex : string := \"%x\"%%string.\n", p.coqName, src))
	}
	var sb strings.Builder
	sb.WriteString("(* GENERATED by qrb2coq from builder/ident.go and builder/types.go - do not edit *)\n")
	sb.WriteString("From Coq Require Import List String NArith.\nFrom QRB Require Import Meta.Regex.\nImport ListNotations.\n\n")
	for i, c := range em.classes {
		fmt.Fprintf(&sb, "Definition cls_%d : list (N * N) := %s.\n", i, c)
	}
	sb.WriteString("\n")
	for _, d := range defs {
		sb.WriteString(d)
	}
	for _, s := range srcs {
		sb.WriteString(s)
	}
	return writeIfChanged(filepath.Join(outDir, "Regex.v"), sb.String())
}
