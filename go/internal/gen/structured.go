package gen

// The structured generator: grammar-shaped, mostly valid statements with weighted clause selection
// and nesting (sub-selects in FROM / WITH / IN / EXISTS / ANY / scalar position, data-modifying
// CTEs).  It complements the type-directed generator, which explores the API uniformly.

import (
	"fmt"
	"strings"

	qrb "github.com/networkteam/qrb"
	"github.com/networkteam/qrb/builder"
	"github.com/networkteam/qrb/fn"
)

type S struct {
	G *Gen
	// Wide: the statement being generated multiplies its list lengths (select list, value rows, columns, SET items,
	// conditions, CTEs ...) so that size-dependent code paths are reached
	Wide bool
}

// cnt is s.n for list lengths
func (s *S) cnt(k int) int {
	n := s.n(k)
	if s.Wide {
		n *= 1 + s.n(7)
		if n > 24 {
			n = 24
		}
	}
	return n
}

func colName(i int) string {
	if i < 3 {
		return []string{"a", "b", "c"}[i]
	}
	return fmt.Sprintf("c%d", i)
}

type sv[T any] struct {
	V T
	P string
}

func (s *S) chance(p float64) bool { return s.G.Rng.Float64() < p }
func (s *S) n(k int) int           { return s.G.Rng.Intn(k) }

var colPool = []string{"id", "name", "a", "b", "c", "t.id", "u.a", "t.name", "x.b", "created_at"}
var tablePool = []string{"t", "u", "users", "public.orders", `"Items"`, "x"}

func (s *S) name(pool []string) sv[builder.IdentExp] {
	str := pool[s.n(len(pool))]
	if s.chance(s.G.Hostile) {
		str = hostilePool[s.n(len(hostilePool))]
	} else if s.chance(NearRate / 3) {
		str = nearIdents[s.n(len(nearIdents))]
	} else if s.chance(NearRate / 3) {
		str = typePool[s.n(len(typePool))]
	}
	return sv[builder.IdentExp]{qrb.N(str), fmt.Sprintf("qrb.N(%q)", str)}
}

func (s *S) argID() int { return s.n(len(s.G.Pool)) }

// atom: identifier, literal, argument or bind
func (s *S) atom() sv[builder.Exp] {
	switch s.n(9) {
	case 0, 1, 2:
		x := s.name(colPool)
		return sv[builder.Exp]{x.V, x.P}
	case 3:
		i := intPool[s.n(len(intPool))]
		return sv[builder.Exp]{qrb.Int(int(i)), fmt.Sprintf("qrb.Int(%d)", i)}
	case 4:
		str := strPool[s.n(len(strPool))]
		return sv[builder.Exp]{qrb.String(str), fmt.Sprintf("qrb.String(%q)", str)}
	case 5, 6:
		id := s.argID()
		return sv[builder.Exp]{qrb.Arg(s.G.Pool[id]), fmt.Sprintf("qrb.Arg(pool[%d])", id)}
	case 7:
		n := bindPool[s.n(4)]
		return sv[builder.Exp]{qrb.Bind(n), fmt.Sprintf("qrb.Bind(%q)", n)}
	default:
		switch s.n(5) {
		case 0:
			return sv[builder.Exp]{qrb.Null(), "qrb.Null()"}
		case 1:
			b := s.chance(0.5)
			return sv[builder.Exp]{qrb.Bool(b), fmt.Sprintf("qrb.Bool(%v)", b)}
		case 2:
			f := floatPool[s.n(len(floatPool))]
			return sv[builder.Exp]{qrb.Float(f), fmt.Sprintf("qrb.Float(%v)", f)}
		case 3:
			sp := []string{"1 day", "2 hours", "it's"}[s.n(3)]
			return sv[builder.Exp]{qrb.Interval(sp), fmt.Sprintf("qrb.Interval(%q)", sp)}
		default:
			return sv[builder.Exp]{qrb.Default(), "qrb.Default()"}
		}
	}
}

// base returns an operator-capable handle.
func (s *S) base(depth int) sv[builder.ExpBase] {
	switch s.n(6) {
	case 0, 1, 2:
		x := s.name(colPool)
		return sv[builder.ExpBase]{x.V.ExpBase, x.P}
	case 3:
		id := s.argID()
		return sv[builder.ExpBase]{qrb.Arg(s.G.Pool[id]), fmt.Sprintf("qrb.Arg(pool[%d])", id)}
	case 4:
		a := s.exps(depth-1, 1, 3)
		name := funcNames[s.n(len(funcNames))]
		f := qrb.Func(name, a.V...)
		return sv[builder.ExpBase]{f.ExpBase, fmt.Sprintf("qrb.Func(%q, %s)", name, a.P)}
	default:
		a := s.exp(depth - 1)
		b := s.exp(depth - 1)
		return sv[builder.ExpBase]{qrb.Coalesce(a.V, b.V), fmt.Sprintf("qrb.Coalesce(%s, %s)", a.P, b.P)}
	}
}

func (s *S) exps(depth, lo, hi int) sv[[]builder.Exp] {
	n := lo + s.n(hi-lo+1)
	if s.Wide && lo != hi {
		n *= 1 + s.n(7)
		if n > 24 {
			n = 24
		}
		if depth > 1 {
			depth = 1
		}
	}
	var vs []builder.Exp
	var ps []string
	for i := 0; i < n; i++ {
		e := s.exp(depth)
		vs = append(vs, e.V)
		ps = append(ps, e.P)
	}
	return sv[[]builder.Exp]{vs, strings.Join(ps, ", ")}
}

func (s *S) exp(depth int) sv[builder.Exp] {
	if depth <= 0 || s.chance(0.3) {
		return s.atom()
	}
	switch s.n(16) {
	case 0, 1, 2:
		l := s.base(depth)
		r := s.exp(depth - 1)
		ops := []struct {
			n string
			f func(builder.ExpBase, builder.Exp) builder.Exp
		}{
			{"Eq", func(a builder.ExpBase, b builder.Exp) builder.Exp { return a.Eq(b) }},
			{"Neq", func(a builder.ExpBase, b builder.Exp) builder.Exp { return a.Neq(b) }},
			{"Lt", func(a builder.ExpBase, b builder.Exp) builder.Exp { return a.Lt(b) }},
			{"Gte", func(a builder.ExpBase, b builder.Exp) builder.Exp { return a.Gte(b) }},
			{"Plus", func(a builder.ExpBase, b builder.Exp) builder.Exp { return a.Plus(b) }},
			{"Minus", func(a builder.ExpBase, b builder.Exp) builder.Exp { return a.Minus(b) }},
			{"Mult", func(a builder.ExpBase, b builder.Exp) builder.Exp { return a.Mult(b) }},
			{"Concat", func(a builder.ExpBase, b builder.Exp) builder.Exp { return a.Concat(b) }},
			{"JsonExtractText", func(a builder.ExpBase, b builder.Exp) builder.Exp { return a.JsonExtractText(b) }},
			{"Contains", func(a builder.ExpBase, b builder.Exp) builder.Exp { return a.Contains(b) }},
			{"RegexpMatch", func(a builder.ExpBase, b builder.Exp) builder.Exp { return a.RegexpMatch(b) }},
		}
		o := ops[s.n(len(ops))]
		return sv[builder.Exp]{o.f(l.V, r.V), fmt.Sprintf("%s.%s(%s)", l.P, o.n, r.P)}
	case 3:
		a := s.exps(depth-1, 1, 3)
		if s.chance(0.5) {
			return sv[builder.Exp]{qrb.And(a.V...), "qrb.And(" + a.P + ")"}
		}
		return sv[builder.Exp]{qrb.Or(a.V...), "qrb.Or(" + a.P + ")"}
	case 4:
		a := s.exp(depth - 1)
		return sv[builder.Exp]{qrb.Not(a.V), "qrb.Not(" + a.P + ")"}
	case 5:
		l := s.base(depth)
		if s.chance(0.5) {
			return sv[builder.Exp]{l.V.IsNull(), l.P + ".IsNull()"}
		}
		return sv[builder.Exp]{l.V.IsNotNull(), l.P + ".IsNotNull()"}
	case 6:
		l := s.base(depth)
		t := typePool[s.n(len(typePool))]
		if s.chance(s.G.Hostile) {
			t = hostileTypes[s.n(len(hostileTypes))]
		} else if s.chance(NearRate) {
			t = nearTypes[s.n(len(nearTypes))]
		} else if s.chance(NearRate) {
			t = identPool[s.n(len(identPool))]
		}
		return sv[builder.Exp]{l.V.Cast(t), fmt.Sprintf("%s.Cast(%q)", l.P, t)}
	case 7:
		l := s.base(depth)
		if s.chance(0.5) {
			q := s.sel(depth-1, true)
			return sv[builder.Exp]{l.V.In(q.V), l.P + ".In(" + q.P + ")"}
		}
		a := s.exps(depth-1, 1, 3)
		return sv[builder.Exp]{l.V.NotIn(qrb.Exps(a.V...)), l.P + ".NotIn(qrb.Exps(" + a.P + "))"}
	case 8:
		q := s.sel(depth-1, true)
		return sv[builder.Exp]{qrb.Exists(q.V), "qrb.Exists(" + q.P + ")"}
	case 9:
		l := s.base(depth)
		r := s.exp(depth - 1)
		m := l.V.Like(r.V)
		p := l.P + ".Like(" + r.P + ")"
		if s.chance(0.4) {
			c := runePool[s.n(4)]
			m = m.Escape(c)
			p += fmt.Sprintf(".Escape(%d)", c)
		}
		return sv[builder.Exp]{m, p}
	case 10:
		l := s.base(depth)
		if s.chance(0.5) {
			q := s.sel(depth-1, true)
			return sv[builder.Exp]{l.V.Eq(qrb.Any(q.V)), l.P + ".Eq(qrb.Any(" + q.P + "))"}
		}
		a := s.exps(depth-1, 1, 3)
		return sv[builder.Exp]{l.V.Eq(qrb.All(qrb.Array(a.V...))), l.P + ".Eq(qrb.All(qrb.Array(" + a.P + ")))"}
	case 11:
		cb := qrb.Case()
		p := "qrb.Case()"
		if s.chance(0.3) {
			e := s.exp(depth - 1)
			cb = qrb.Case(e.V)
			p = "qrb.Case(" + e.P + ")"
		}
		for i, k := 0, 1+s.cnt(2); i < k; i++ {
			c, r := s.exp(depth-1), s.exp(depth-1)
			cb = cb.When(c.V).Then(r.V)
			p += ".When(" + c.P + ").Then(" + r.P + ")"
		}
		if s.chance(0.5) {
			e := s.exp(depth - 1)
			cb = cb.Else(e.V)
			p += ".Else(" + e.P + ")"
		}
		return sv[builder.Exp]{cb.End(), p + ".End()"}
	case 12:
		a := s.exp(depth - 1)
		agg := fn.Count(a.V)
		p := "fn.Count(" + a.P + ")"
		if s.chance(0.3) {
			agg = agg.Distinct()
			p += ".Distinct()"
		}
		if s.chance(0.3) {
			c := s.exp(depth - 1)
			agg = agg.Filter(c.V)
			p += ".Filter(" + c.P + ")"
		}
		if s.chance(0.3) {
			o := s.exp(depth - 1)
			ob := agg.OrderBy(o.V).Desc()
			return sv[builder.Exp]{ob, p + ".OrderBy(" + o.P + ").Desc()"}
		}
		return sv[builder.Exp]{agg, p}
	case 13:
		q := s.sel(depth-1, true)
		return sv[builder.Exp]{q.V, q.P}
	case 14:
		j := s.json(depth - 1)
		return sv[builder.Exp]{j.V, j.P}
	default:
		a := s.exp(depth - 1)
		return sv[builder.Exp]{builder.Neg(a.V), "builder.Neg(" + a.P + ")"}
	}
}

func (s *S) json(depth int) sv[builder.JsonBuildObjectBuilder] {
	j := fn.JsonBuildObject()
	p := "fn.JsonBuildObject()"
	if s.chance(0.5) {
		j = fn.JsonbBuildObject()
		p = "fn.JsonbBuildObject()"
	}
	if s.Wide && s.chance(0.25) {
		// many distinct keys: size thresholds of the renderer (and PostgreSQL's 100-argument limit at 50 pairs);
		// leaf values, so that the object stays small
		sizes := []int{7, 33, 50, 51, 75, 100, 101}
		d := 0
		for i, k := 0, sizes[s.n(len(sizes))]; i < k; i++ {
			key := fmt.Sprintf("k%d", i)
			e := s.exp(d)
			j = j.Prop(key, e.V)
			p += fmt.Sprintf(".Prop(%q, %s)", key, e.P)
		}
		return sv[builder.JsonBuildObjectBuilder]{j, p}
	}
	keys := []string{"id", "name", "k'ey", ""}
	for i, k := 0, s.cnt(4); i < k; i++ {
		key := keys[s.n(len(keys))]
		e := s.exp(depth)
		j = j.Prop(key, e.V)
		p += fmt.Sprintf(".Prop(%q, %s)", key, e.P)
	}
	return sv[builder.JsonBuildObjectBuilder]{j, p}
}

func (s *S) fromExp(depth int) sv[builder.FromExp] {
	switch {
	case depth > 0 && s.chance(0.2):
		q := s.sel(depth-1, false)
		return sv[builder.FromExp]{q.V, q.P}
	case s.chance(0.12):
		a := s.exps(depth-1, 0, 2)
		f := qrb.Func("generate_series", a.V...)
		p := "qrb.Func(\"generate_series\", " + a.P + ")"
		if s.chance(0.3) {
			f = f.WithOrdinality()
			p += ".WithOrdinality()"
		}
		return sv[builder.FromExp]{f, p}
	default:
		x := s.name(tablePool)
		return sv[builder.FromExp]{x.V, x.P}
	}
}

func (s *S) with(depth int) sv[builder.WithBuilder] {
	name := aliasPool[s.n(len(aliasPool))]
	var w builder.WithWithBuilder
	p := ""
	if s.chance(0.3) {
		w = qrb.WithRecursive(name)
		p = fmt.Sprintf("qrb.WithRecursive(%q)", name)
	} else {
		w = qrb.With(name)
		p = fmt.Sprintf("qrb.With(%q)", name)
	}
	if s.chance(0.3) {
		w = w.ColumnNames("c1", "c2")
		p += `.ColumnNames("c1", "c2")`
	}
	wb, p := s.withAs(w, p, depth)
	if s.chance(0.3) {
		w2 := wb.With("w2")
		wb, p = s.withAs(w2, p+`.With("w2")`, depth)
	}
	if s.chance(0.15) {
		c := s.name(colPool)
		wb = wb.SearchDepthFirst().By(c.V).Set("ord")
		p += ".SearchDepthFirst().By(" + c.P + `).Set("ord")`
	}
	return sv[builder.WithBuilder]{wb, p}
}

func (s *S) withAs(w builder.WithWithBuilder, p string, depth int) (builder.WithBuilder, string) {
	var q builder.WithQuery
	qp := ""
	if s.chance(0.2) {
		u := s.upd(depth-1, false)
		q, qp = u.V, u.P
	} else {
		x := s.sel(depth-1, false)
		q, qp = x.V, x.P
	}
	switch s.n(4) {
	case 0:
		return w.AsMaterialized(q), p + ".AsMaterialized(" + qp + ")"
	case 1:
		return w.AsNotMaterialized(q), p + ".AsNotMaterialized(" + qp + ")"
	}
	return w.As(q), p + ".As(" + qp + ")"
}

// sel builds a SELECT; small=true keeps it to a few clauses (sub-select position).
func (s *S) sel(depth int, small bool) sv[builder.SelectBuilder] {
	var b builder.SelectBuilder
	p := ""
	list := s.exps(depth-1, 1, 3)
	if !small && depth > 0 && s.chance(0.2) {
		w := s.with(depth)
		b = w.V.Select(list.V...).SelectBuilder
		p = w.P + ".Select(" + list.P + ")"
	} else {
		ss := qrb.Select(list.V...)
		p = "qrb.Select(" + list.P + ")"
		if s.chance(0.4) {
			a := aliasPool[s.n(len(aliasPool))]
			ss = ss.As(a)
			p += fmt.Sprintf(".As(%q)", a)
		}
		b = ss.SelectBuilder
		if s.chance(0.1) {
			d := ss.Distinct()
			b, p = d.SelectBuilder, p+".Distinct()"
			if s.chance(0.5) {
				e := s.exp(depth - 1)
				b, p = d.On(e.V), p+".On("+e.P+")"
			}
		}
	}
	if s.chance(0.12) {
		j := s.json(depth - 1)
		js := b.ApplySelectJson(func(builder.JsonBuildObjectBuilder) builder.JsonBuildObjectBuilder { return j.V })
		b, p = js.SelectBuilder, p+".ApplySelectJson(func(_) { return "+j.P+" })"
		if s.chance(0.5) {
			b, p = js.As("obj").SelectBuilder, p+`.As("obj")`
		}
	}
	nfrom := s.n(3)
	if small {
		nfrom = s.n(2)
	}
	for i := 0; i < nfrom; i++ {
		f := s.fromExp(depth)
		var fb builder.FromSelectBuilder
		switch s.n(8) {
		case 0:
			if lf, ok := f.V.(builder.FromLateralExp); ok {
				if _, isIdent := f.V.(builder.IdentExp); !isIdent {
					fb, p = b.FromLateral(lf), p+".FromLateral("+f.P+")"
					break
				}
			}
			fb, p = b.From(f.V), p+".From("+f.P+")"
		case 1:
			if _, isIdent := f.V.(builder.IdentExp); isIdent {
				fb, p = b.FromOnly(f.V), p+".FromOnly("+f.P+")"
			} else {
				fb, p = b.From(f.V), p+".From("+f.P+")"
			}
		default:
			fb, p = b.From(f.V), p+".From("+f.P+")"
		}
		if s.chance(0.5) {
			a := aliasPool[s.n(len(aliasPool))]
			fb, p = fb.As(a), p+fmt.Sprintf(".As(%q)", a)
			if s.chance(0.2) {
				fb, p = fb.ColumnAliases("c1", "c2"), p+`.ColumnAliases("c1", "c2")`
			}
		}
		b = fb.SelectBuilder
		for j, k := 0, s.n(3); j < k && !small; j++ {
			jf := s.fromExp(depth)
			var jb builder.JoinSelectBuilder
			switch s.n(5) {
			case 0:
				jb, p = b.LeftJoin(jf.V), p+".LeftJoin("+jf.P+")"
			case 1:
				jb, p = b.RightJoin(jf.V), p+".RightJoin("+jf.P+")"
			case 2:
				jb, p = b.FullJoin(jf.V), p+".FullJoin("+jf.P+")"
			default:
				jb, p = b.Join(jf.V), p+".Join("+jf.P+")"
			}
			if s.chance(0.5) {
				a := aliasPool[s.n(len(aliasPool))]
				jb, p = jb.As(a), p+fmt.Sprintf(".As(%q)", a)
			}
			if s.chance(0.8) {
				c := s.exp(depth - 1)
				b, p = jb.On(c.V), p+".On("+c.P+")"
			} else {
				b, p = jb.Using("id", "a"), p+`.Using("id", "a")`
			}
		}
	}
	for i, k := 0, s.cnt(3); i < k; i++ {
		c := s.exp(depth - 1)
		b, p = b.Where(c.V), p+".Where("+c.P+")"
	}
	if !small && s.chance(0.3) {
		switch s.n(5) {
		case 0:
			a, c := s.exps(depth-1, 1, 2), s.exps(depth-1, 2, 3)
			b, p = b.GroupBy().Rollup(a.V, c.V).SelectBuilder, p+".GroupBy().Rollup(qrb.Exps("+a.P+"), qrb.Exps("+c.P+"))"
		case 1:
			a, c := s.exps(depth-1, 1, 2), s.exps(depth-1, 1, 2)
			b, p = b.GroupBy().GroupingSets(a.V, c.V).SelectBuilder, p+".GroupBy().GroupingSets(qrb.Exps("+a.P+"), qrb.Exps("+c.P+"))"
		case 2:
			b, p = b.GroupBy().Empty().SelectBuilder, p+".GroupBy().Empty()"
		default:
			a := s.exps(depth-1, 1, 3)
			gb := b.GroupBy(a.V...)
			p += ".GroupBy(" + a.P + ")"
			if s.chance(0.15) {
				gb, p = gb.Distinct(), p+".Distinct()"
			}
			b = gb.SelectBuilder
		}
		for i, k := 0, s.cnt(3); i < k; i++ {
			c := s.exp(depth - 1)
			b, p = b.Having(c.V), p+".Having("+c.P+")"
		}
	}
	if !small && depth > 0 && s.chance(0.15) {
		cb := b.Union()
		cp := p + ".Union()"
		switch s.n(3) {
		case 0:
			cb, cp = b.Intersect(), p+".Intersect()"
		case 1:
			cb, cp = b.Except(), p+".Except()"
		}
		if s.chance(0.4) {
			cb, cp = cb.All(), cp+".All()"
		}
		l2 := s.exps(depth-1, 1, 2)
		b, p = cb.Select(l2.V...).SelectBuilder, cp+".Select("+l2.P+")"
		if s.chance(0.5) {
			f := s.name(tablePool)
			b, p = b.From(f.V).SelectBuilder, p+".From("+f.P+")"
		}
	}
	for i, k := 0, s.cnt(3); i < k && (!small || s.chance(0.3)); i++ {
		e := s.exp(depth - 1)
		ob := b.OrderBy(e.V)
		p += ".OrderBy(" + e.P + ")"
		switch s.n(4) {
		case 0:
			ob, p = ob.Asc(), p+".Asc()"
		case 1:
			ob, p = ob.Desc().NullsLast(), p+".Desc().NullsLast()"
		case 2:
			ob, p = ob.NullsFirst(), p+".NullsFirst()"
		}
		b = ob.SelectBuilder
	}
	if s.chance(0.25) {
		e := s.atom()
		b, p = b.Limit(e.V), p+".Limit("+e.P+")"
		if s.chance(0.3) {
			e2 := s.atom()
			b, p = b.Limit(e2.V), p+".Limit("+e2.P+")"
		}
	}
	if s.chance(0.2) {
		e := s.atom()
		b, p = b.Offset(e.V), p+".Offset("+e.P+")"
	}
	if !small && s.chance(0.12) {
		fb := b.ForUpdate()
		p += ".ForUpdate()"
		if s.chance(0.4) {
			fb, p = b.ForShare(), p[:len(p)-len(".ForUpdate()")]+".ForShare()"
		}
		if s.chance(0.4) {
			fb, p = fb.Of("t", "u"), p+`.Of("t", "u")`
		}
		if s.chance(0.4) {
			fb, p = fb.SkipLocked(), p+".SkipLocked()"
		}
		b = fb.SelectBuilder
	}
	return sv[builder.SelectBuilder]{b, p}
}

func (s *S) returning(depth int) ([]builder.Exp, string) {
	a := s.exps(depth-1, 1, 3)
	return a.V, a.P
}

func (s *S) ins(depth int) sv[builder.InsertBuilder] {
	t := s.name(tablePool)
	var b builder.InsertBuilder
	p := ""
	if depth > 0 && s.chance(0.2) {
		w := s.with(depth)
		b, p = w.V.InsertInto(t.V), w.P+".InsertInto("+t.P+")"
	} else {
		b, p = qrb.InsertInto(t.V), "qrb.InsertInto("+t.P+")"
	}
	if s.chance(0.2) {
		b, p = b.As("ins"), p+`.As("ins")`
	}
	ncol := 1 + s.cnt(3)
	if s.chance(0.8) {
		var cols []string
		for i := 0; i < ncol; i++ {
			cols = append(cols, colName(i))
		}
		b = b.ColumnNames(cols[0], cols[1:]...)
		p += fmt.Sprintf(".ColumnNames(%q)", cols)
	}
	switch s.n(10) {
	case 0:
		b, p = b.DefaultValues(), p+".DefaultValues()"
	case 1, 2:
		q := s.sel(depth-1, false)
		b, p = b.Query(q.V), p+".Query("+q.P+")"
	case 3:
		m := map[string]any{}
		var parts []string
		for i := 0; i < ncol; i++ {
			id := s.argID()
			k := colName(i)
			m[k] = s.G.Pool[id]
			parts = append(parts, fmt.Sprintf("%q: pool[%d]", k, id))
		}
		b, p = b.SetMap(m), p+".SetMap(map[string]any{"+strings.Join(parts, ", ")+"})"
	default:
		for i, k := 0, 1+s.cnt(3); i < k; i++ {
			a := s.exps(depth-1, ncol, ncol)
			b, p = b.Values(a.V...), p+".Values("+a.P+")"
		}
		// a structural conflict (both VALUES and a query): an error in every option combination
		if depth > 0 && s.chance(0.06) {
			q := s.sel(depth-1, false)
			b, p = b.Query(q.V), p+".Query("+q.P+")"
		}
	}
	if s.chance(0.45) {
		var oc builder.OnConflictInsertBuilder
		if s.chance(0.6) {
			c := s.name(colPool)
			oc, p = b.OnConflict(c.V), p+".OnConflict("+c.P+")"
			if s.chance(0.3) {
				w := s.exp(depth - 1)
				oc, p = oc.Where(w.V), p+".Where("+w.P+")"
			}
			// a structural conflict (conflict targets and a constraint name)
			if s.chance(0.1) {
				oc, p = oc.OnConstraint("t_pkey"), p+`.OnConstraint("t_pkey")`
			}
		} else {
			oc, p = b.OnConflict(), p+".OnConflict()"
			if s.chance(0.5) {
				oc, p = oc.OnConstraint("t_pkey"), p+`.OnConstraint("t_pkey")`
			}
		}
		if s.chance(0.35) {
			b, p = oc.DoNothing(), p+".DoNothing()"
		} else {
			du := oc.DoUpdate()
			p += ".DoUpdate()"
			for i, k := 0, 1+s.cnt(2); i < k; i++ {
				e := s.exp(depth - 1)
				col := colName(i)
				du, p = du.Set(col, e.V), p+fmt.Sprintf(".Set(%q, %s)", col, e.P)
			}
			for i, k := 0, s.cnt(3); i < k; i++ {
				w := s.exp(depth - 1)
				du, p = du.Where(w.V), p+".Where("+w.P+")"
			}
			b = du.InsertBuilder
		}
	}
	if s.chance(0.4) {
		r, rp := s.returning(depth)
		rb := b.Returning(r[0], r[1:]...)
		p += ".Returning(" + rp + ")"
		if s.chance(0.4) {
			b, p = rb.As("ret"), p+`.As("ret")`
		} else {
			b = rb.InsertBuilder
		}
	}
	return sv[builder.InsertBuilder]{b, p}
}

func (s *S) upd(depth int, allowWith bool) sv[builder.UpdateBuilder] {
	t := s.name(tablePool)
	var b builder.UpdateBuilder
	p := ""
	if allowWith && depth > 0 && s.chance(0.2) {
		w := s.with(depth)
		b, p = w.V.Update(t.V), w.P+".Update("+t.P+")"
	} else {
		b, p = qrb.Update(t.V), "qrb.Update("+t.P+")"
	}
	if s.chance(0.2) {
		b, p = b.As("upd"), p+`.As("upd")`
	}
	if s.chance(0.15) {
		id1, id2 := s.argID(), s.argID()
		b = b.SetMap(map[string]any{"b": s.G.Pool[id1], "a": s.G.Pool[id2]})
		p += fmt.Sprintf(".SetMap(map[string]any{\"b\": pool[%d], \"a\": pool[%d]})", id1, id2)
	} else {
		for i, k := 0, 1+s.cnt(3); i < k; i++ {
			e := s.exp(depth - 1)
			col := colName(i)
			b, p = b.Set(col, e.V), p+fmt.Sprintf(".Set(%q, %s)", col, e.P)
		}
	}
	for i, k := 0, s.cnt(3); i < k; i++ {
		f := s.fromExp(depth - 1)
		fb := b.From(f.V)
		p += ".From(" + f.P + ")"
		if s.chance(0.5) {
			fb, p = fb.As("f"), p+`.As("f")`
		}
		b = fb.UpdateBuilder
	}
	for i, k := 0, s.cnt(3); i < k; i++ {
		c := s.exp(depth - 1)
		b, p = b.Where(c.V), p+".Where("+c.P+")"
	}
	if s.chance(0.4) {
		e := s.exp(depth - 1)
		rb := b.Returning(e.V)
		p += ".Returning(" + e.P + ")"
		if s.chance(0.4) {
			b, p = rb.As("r"), p+`.As("r")`
		} else {
			b = rb.UpdateBuilder
		}
	}
	return sv[builder.UpdateBuilder]{b, p}
}

func (s *S) del(depth int) sv[builder.DeleteBuilder] {
	t := s.name(tablePool)
	var b builder.DeleteBuilder
	p := ""
	if depth > 0 && s.chance(0.2) {
		w := s.with(depth)
		b, p = w.V.DeleteFrom(t.V), w.P+".DeleteFrom("+t.P+")"
	} else {
		b, p = qrb.DeleteFrom(t.V), "qrb.DeleteFrom("+t.P+")"
	}
	if s.chance(0.2) {
		b, p = b.As("d"), p+`.As("d")`
	}
	for i, k := 0, s.cnt(3); i < k; i++ {
		f := s.fromExp(depth - 1)
		fb := b.Using(f.V)
		p += ".Using(" + f.P + ")"
		if s.chance(0.5) {
			fb, p = fb.As("u2"), p+`.As("u2")`
		}
		b = fb.DeleteBuilder
	}
	for i, k := 0, s.cnt(3); i < k; i++ {
		c := s.exp(depth - 1)
		b, p = b.Where(c.V), p+".Where("+c.P+")"
	}
	if s.chance(0.4) {
		e := s.exp(depth - 1)
		rb := b.Returning(e.V)
		p += ".Returning(" + e.P + ")"
		if s.chance(0.4) {
			b, p = rb.As("r"), p+`.As("r")`
		} else {
			b = rb.DeleteBuilder
		}
	}
	return sv[builder.DeleteBuilder]{b, p}
}

// Statement returns a random statement (kind: select, insert, update, delete, exp).
func (s *S) Statement(depth int) (w builder.SQLWriter, prog string, kind string) {
	s.Wide = s.chance(0.06)
	defer func() { s.Wide = false }()
	if s.Wide && depth > 3 {
		depth = 3
	}
	switch s.n(10) {
	case 0, 1, 2:
		x := s.sel(depth, false)
		return x.V, x.P, "select"
	case 3, 4, 5:
		x := s.ins(depth)
		return x.V, x.P, "insert"
	case 6, 7:
		x := s.upd(depth, true)
		return x.V, x.P, "update"
	case 8:
		x := s.del(depth)
		return x.V, x.P, "delete"
	default:
		x := s.exp(depth)
		return x.V, x.P, "exp"
	}
}
