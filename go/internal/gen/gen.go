// Package gen is the type-directed generator: it composes values through the exported API of the
// qrb tree under test (functions from the generated registry, methods found by reflection), so API
// that is added later is exercised without editing the harness.  Every random choice is drawn
// from one PRNG.
package gen

import (
	"fmt"
	"math"
	"math/rand"
	"reflect"
	"sort"
	"strings"

	"verif/internal/registry"
)

type producer struct {
	name   string
	fn     reflect.Value // package-level function, or zero for methods
	recv   reflect.Type  // receiver type for methods
	method int           // method index
	typ    reflect.Type  // function type (for methods: without receiver)
	params []string      // parameter names (may be shorter than NumIn)
	cost   int
	weight float64
}

type Gen struct {
	// OnCall, when set, is told about every constructor / method call made while generating a value
	OnCall    func(name, owner string, typ reflect.Type, isMethod bool, args []reflect.Value, out reflect.Value, prog string)
	Rng       *rand.Rand
	Pool      []any
	producers []*producer
	byOut     map[reflect.Type][]*producer // exact result type -> producers
	types     []reflect.Type               // all concrete result types
	typeCost  map[reflect.Type]int
	cache     map[reflect.Type][]*producer // target (maybe interface) -> candidates
	Stats     map[string]int
	Hostile   float64 // probability of a hostile string where a name is expected
	MaxList   int
}

var (
	anyType   = reflect.TypeOf((*any)(nil)).Elem()
	errorType = reflect.TypeOf((*error)(nil)).Elem()
)

func excludedType(t reflect.Type) bool {
	s := t.String()
	return strings.Contains(s, "QueryBuilder") || strings.Contains(s, "SQLBuilder")
}

func excludedMethod(name string) bool {
	switch name {
	case "WriteSQL", "IsExp", "Each":
		return true
	}
	return false
}

func New(seed int64, pool []any) *Gen {
	g := &Gen{
		Rng:      rand.New(rand.NewSource(seed)),
		Pool:     pool,
		byOut:    map[reflect.Type][]*producer{},
		typeCost: map[reflect.Type]int{},
		cache:    map[reflect.Type][]*producer{},
		Stats:    map[string]int{},
		Hostile:  0.03,
		MaxList:  3,
	}
	seen := map[reflect.Type]bool{}
	var queue []reflect.Type
	addType := func(t reflect.Type) {
		if t.Kind() == reflect.Interface || seen[t] || excludedType(t) {
			return
		}
		if !strings.HasPrefix(t.PkgPath(), "github.com/networkteam/qrb") &&
			!(t.Kind() == reflect.Ptr && strings.HasPrefix(t.Elem().PkgPath(), "github.com/networkteam/qrb")) {
			return
		}
		seen[t] = true
		queue = append(queue, t)
	}
	for _, f := range registry.Funcs {
		ft := f.Fn.Type()
		if ft.NumOut() != 1 || excludedType(ft.Out(0)) {
			continue
		}
		w := 1.0
		if strings.HasPrefix(f.Name, "fn.") {
			w = 0.08
		}
		if strings.HasPrefix(f.Name, "builder.") {
			w = 0.3 // the root package re-exports almost all of them
		}
		p := &producer{name: f.Name, fn: f.Fn, typ: ft, params: f.Params, weight: w}
		g.producers = append(g.producers, p)
		addType(ft.Out(0))
	}
	for len(queue) > 0 {
		t := queue[0]
		queue = queue[1:]
		g.types = append(g.types, t)
		for i := 0; i < t.NumMethod(); i++ {
			m := t.Method(i)
			if excludedMethod(m.Name) || m.Type.NumOut() != 1 || excludedType(m.Type.Out(0)) {
				continue
			}
			bad := false
			for j := 1; j < m.Type.NumIn(); j++ {
				if excludedType(m.Type.In(j)) {
					bad = true
				}
			}
			if bad {
				continue
			}
			base := t
			if base.Kind() == reflect.Ptr {
				base = base.Elem()
			}
			p := &producer{name: base.Name() + "." + m.Name, recv: t, method: i, typ: m.Type,
				params: registry.MethodParams[methodOwner(t, m.Name)+"."+m.Name], weight: 1}
			g.producers = append(g.producers, p)
			addType(m.Type.Out(0))
		}
	}
	for _, p := range g.producers {
		out := p.out()
		g.byOut[out] = append(g.byOut[out], p)
	}
	g.computeCosts()
	return g
}

// methodOwner finds the declaring type of a (possibly promoted) method, for parameter names.
func methodOwner(t reflect.Type, name string) string {
	if t.Kind() == reflect.Ptr {
		t = t.Elem()
	}
	if t.Kind() == reflect.Struct {
		if _, ok := registry.MethodParams[t.Name()+"."+name]; ok {
			return t.Name()
		}
		for i := 0; i < t.NumField(); i++ {
			f := t.Field(i)
			if f.Anonymous {
				ft := f.Type
				if ft.Kind() == reflect.Interface {
					continue
				}
				if _, ok := ft.MethodByName(name); ok {
					return methodOwner(ft, name)
				}
			}
		}
	}
	return t.Name()
}

// MethodOwner is methodOwner for other packages.
func MethodOwner(t reflect.Type, name string) string { return methodOwner(t, name) }

func (p *producer) out() reflect.Type { return p.typ.Out(0) }

// firstArg is the index of the first non-receiver parameter.
func (p *producer) firstArg() int {
	if p.recv != nil {
		return 1
	}
	return 0
}

const inf = 1 << 20

func (g *Gen) costOfType(t reflect.Type) int {
	switch t.Kind() {
	case reflect.Struct, reflect.Ptr:
		if c, ok := g.typeCost[t]; ok {
			return c
		}
		return inf
	case reflect.Interface:
		if t.NumMethod() == 0 {
			return 0
		}
		best := inf
		for ct, c := range g.typeCost {
			if ct.Implements(t) && c < best {
				best = c
			}
		}
		return best
	case reflect.Func:
		return 1
	}
	return 0 // basic and named basic types, slices (may be empty), maps
}

func (g *Gen) computeCosts() {
	for _, p := range g.producers {
		p.cost = inf
	}
	for changed := true; changed; {
		changed = false
		for _, p := range g.producers {
			c := 0
			if p.recv != nil {
				c = g.costOfType(p.recv)
			}
			n := p.typ.NumIn()
			for j := p.firstArg(); j < n; j++ {
				if p.typ.IsVariadic() && j == n-1 {
					continue
				}
				if cj := g.costOfType(p.typ.In(j)); cj > c {
					c = cj
				}
			}
			if c < inf {
				c++
			}
			if c < p.cost {
				p.cost = c
				changed = true
			}
			if old, ok := g.typeCost[p.out()]; !ok || p.cost < old {
				if p.cost < inf {
					g.typeCost[p.out()] = p.cost
					changed = true
				}
			}
		}
	}
}

func (g *Gen) candidates(t reflect.Type) []*producer {
	if c, ok := g.cache[t]; ok {
		return c
	}
	var out []*producer
	for _, p := range g.producers {
		if p.cost >= inf {
			continue
		}
		o := p.out()
		if o == t || (t.Kind() == reflect.Interface && o.Kind() != reflect.Interface && o.Implements(t)) {
			out = append(out, p)
		}
	}
	sort.SliceStable(out, func(i, j int) bool { return out[i].name < out[j].name })
	g.cache[t] = out
	return out
}

// Boost multiplies the weight of the named producers (e.g. "qrb.Bind": 30).
func (g *Gen) Boost(m map[string]float64) {
	for _, p := range g.producers {
		if f, ok := m[p.name]; ok {
			p.weight *= f
		}
	}
}

// Types returns every concrete type the generator can produce.
func (g *Gen) Types() []reflect.Type { return g.types }

type Val struct {
	V    reflect.Value
	Prog string
}

var identPool = []string{"a", "b", "c", "t", "u", "id", "name", "t.a", "u.id", "public.t", `"Q"`, `"My""T".col`, "t.*", "*",
	"x1", "täble", "col$1", `U&"d\0061t"`, "_x"}
var hostilePool = []string{"", "a b", "a;b", "x'y", "1x", `"open`, "a--b", "a/*", `\`, "a)", "(a", "a,b", "a.b.", "U&x",
	"x UESCAPE '!'", "$1", "a\x00b", "\xff", "é'", "a\nb", "E'x'"}
var typePool = []string{"int", "text", "integer[]", "varchar(255)", "jsonb", `"MyT"`, "numeric(10)", "text [ ]", "public.ty"}
var hostileTypes = []string{"", "int; drop", "text)", "int::x", "varchar(1,2)", "int'", "a b", "1int"}

// names / types that differ from a valid one only by surrounding white space or letter case: the boundary
// between what validation accepts and what it rejects
var nearIdents = []string{" a", "a ", "\ta", " t.a ", "a\n", "A", " \"Q\""}
var nearTypes = []string{" int", "int ", "\n  varchar(10)", "text[] ", "INT", " numeric(10) ", "text\t"}

// NearRate is the probability that a name / type is drawn from the near-valid pools
var NearRate = 0.03
var aliasPool = []string{"x", "y", "al", "t2", `"A"`, "sub"}
var opPool = []string{"=", "<", ">", "<=", ">=", "<>", "+", "-", "*", "/", "%", "^", "||", "->", "->>", "#>", "@>", "<@", "~", "!~",
	"AND", "OR", "LIKE", "IS", "&&", "&", "|", "<<", "IN", "NOT", "::", "."}
var strPool = []string{"", "foo", "it's", `back\slash`, "a'b\\c", "new\nline", "$1", "/* c */", "-- c", "é", "\xff\xfe", "E'x", "%x_", `\'`, "''", "a\x00b", ";"}
var bindPool = []string{"a", "b", "id", "name", "", "weird name", "ü", "a'b", "$1",
	// names that differ from another pool name only by a sigil, case or blanks: a key is a byte string, nothing else
	"@id", "@a", ":a", "$a", "A", " a", "a ", "Name", "@"}
var funcNames = []string{"f", "lower", "generate_series", "my_fn", "json_to_record", "unnest"}
var fieldPool = []string{"year", "epoch", "DOW", "month"}
var intPool = []int64{0, 1, -1, 2, 7, 42, 100, -100, math.MaxInt64, math.MinInt64, 1 << 31, -(1 << 31) - 1}
var floatPool = []float64{0, 1, -1, 0.5, 3.14159, 1e21, 1e-7, 1e300, -1e300, 5e-324, math.MaxFloat64, 123456789.125, math.Copysign(0, -1), 0.1, 1e20, 1e22}
var runePool = []rune{'!', '\\', '\'', '#', 'x', 'é', 0, -1, 0x10FFFF + 1, 0xD800, '\n', '"'}

func (g *Gen) pick(l []string) string { return l[g.Rng.Intn(len(l))] }

func (g *Gen) genString(hint string) string {
	h := strings.ToLower(hint)
	hostile := g.Rng.Float64() < g.Hostile
	switch {
	case (h == "s" || h == "n") && g.Rng.Float64() < NearRate:
		if g.Rng.Intn(2) == 0 {
			return g.pick(typePool) // a string that is a valid type used as a name (often in the same statement as the type)
		}
		return g.pick(nearIdents)
	case h == "typ" && g.Rng.Float64() < NearRate:
		if g.Rng.Intn(2) == 0 {
			return g.pick(identPool) // and the other way round
		}
		return g.pick(nearTypes)
	case h == "s" || h == "n":
		if hostile {
			return g.pick(hostilePool)
		}
		return g.pick(identPool)
	case h == "typ":
		if hostile {
			return g.pick(hostileTypes)
		}
		return g.pick(typePool)
	case strings.Contains(h, "argname"):
		return g.pick(bindPool)
	case strings.Contains(h, "alias") || strings.Contains(h, "column") || strings.Contains(h, "outputname") ||
		strings.Contains(h, "queryname") || strings.Contains(h, "constraint") || h == "names" || h == "columns" ||
		h == "aliases" || strings.Contains(h, "tablename") || h == "key":
		if h == "key" {
			return g.pick(strPool)
		}
		return g.pick(aliasPool)
	case h == "name":
		return g.pick(funcNames)
	case h == "field":
		return g.pick(fieldPool)
	case h == "spec" || h == "literal":
		return g.pick(strPool)
	}
	return g.pick(strPool)
}

// Gen produces a value of type t; depth bounds the nesting.
func (g *Gen) Gen(t reflect.Type, depth int, hint string) (val Val, ok bool) {
	switch t.Kind() {
	case reflect.String:
		s := g.genString(hint)
		if hint == "op" {
			s = g.pick(opPool)
		}
		v := reflect.New(t).Elem()
		v.SetString(s)
		if t.PkgPath() != "" {
			return Val{v, fmt.Sprintf("%s(%q)", t.String(), s)}, true
		}
		return Val{v, fmt.Sprintf("%q", s)}, true
	case reflect.Bool:
		b := g.Rng.Intn(2) == 0
		return Val{reflect.ValueOf(b), fmt.Sprint(b)}, true
	case reflect.Int32:
		r := runePool[g.Rng.Intn(len(runePool))]
		return Val{reflect.ValueOf(r), fmt.Sprintf("rune(%d)", r)}, true
	case reflect.Int, reflect.Int64:
		i := intPool[g.Rng.Intn(len(intPool))]
		v := reflect.New(t).Elem()
		v.SetInt(i)
		return Val{v, fmt.Sprint(i)}, true
	case reflect.Float64:
		f := floatPool[g.Rng.Intn(len(floatPool))]
		return Val{reflect.ValueOf(f), fmt.Sprintf("float64(%v)", f)}, true
	case reflect.Slice:
		n := g.Rng.Intn(g.MaxList + 1)
		// leaves (values to bind, strings) cost no depth: their lists keep their length at any depth
		leafElems := (t.Elem().Kind() == reflect.Interface && t.Elem().NumMethod() == 0) || t.Elem().Kind() == reflect.String
		if !leafElems {
			if depth <= 0 && n > 1 {
				n = 1
			}
			if depth < -2 {
				n = 0
			}
		}
		s := reflect.MakeSlice(t, 0, n)
		var parts []string
		for i := 0; i < n; i++ {
			// now and then an element is the one before it again: equal elements are still separate elements
			if i > 0 && g.Rng.Intn(5) == 0 {
				s = reflect.Append(s, s.Index(i-1))
				parts = append(parts, parts[i-1])
				continue
			}
			e, ok := g.Gen(t.Elem(), depth-1, hint)
			if !ok {
				return Val{}, false
			}
			s = reflect.Append(s, e.V)
			parts = append(parts, e.Prog)
		}
		return Val{s, t.String() + "{" + strings.Join(parts, ", ") + "}"}, true
	case reflect.Map:
		n := g.Rng.Intn(4)
		m := reflect.MakeMap(t)
		var parts []string
		for i := 0; i < n; i++ {
			k := g.pick(aliasPool)
			id := g.Rng.Intn(len(g.Pool))
			pv := reflect.New(t.Elem()).Elem()
			if g.Pool[id] != nil {
				pv.Set(reflect.ValueOf(g.Pool[id]))
			}
			m.SetMapIndex(reflect.ValueOf(k), pv)
			parts = append(parts, fmt.Sprintf("%q: pool[%d]", k, id))
		}
		return Val{m, t.String() + "{" + strings.Join(parts, ", ") + "}"}, true
	case reflect.Func:
		return g.genFunc(t, depth)
	case reflect.Interface:
		if t.NumMethod() == 0 {
			id := g.Rng.Intn(len(g.Pool))
			v := reflect.New(t).Elem()
			if g.Pool[id] != nil {
				v.Set(reflect.ValueOf(g.Pool[id]))
			}
			return Val{v, fmt.Sprintf("pool[%d]", id)}, true
		}
	}
	return g.genFrom(t, depth)
}

func (g *Gen) genFrom(t reflect.Type, depth int) (Val, bool) {
	cands := g.candidates(t)
	if len(cands) == 0 {
		g.Stats["no-producer:"+t.String()]++
		return Val{}, false
	}
	minCost := inf
	for _, p := range cands {
		if p.cost < minCost {
			minCost = p.cost
		}
	}
	budget := depth
	if budget < minCost {
		budget = minCost
	}
	if depth < -6 {
		return Val{}, false
	}
	var usable []*producer
	total := 0.0
	for _, p := range cands {
		if p.cost <= budget {
			usable = append(usable, p)
			total += p.weight
		}
	}
	for attempt := 0; attempt < 4; attempt++ {
		x := g.Rng.Float64() * total
		var p *producer
		for _, c := range usable {
			x -= c.weight
			if x <= 0 {
				p = c
				break
			}
		}
		if p == nil {
			p = usable[len(usable)-1]
		}
		if v, ok := g.call(p, depth); ok {
			if t.Kind() == reflect.Interface {
				iv := reflect.New(t).Elem()
				iv.Set(v.V)
				return Val{iv, v.Prog}, true
			}
			return v, true
		}
	}
	return Val{}, false
}

func (g *Gen) call(p *producer, depth int) (val Val, ok bool) {
	var args []reflect.Value
	var prog string
	if p.recv != nil {
		r, ok := g.Gen(p.recv, depth-1, "")
		if !ok {
			return Val{}, false
		}
		args = append(args, r.V)
		prog = r.Prog + "." + p.name[strings.IndexByte(p.name, '.')+1:]
	} else {
		prog = p.name
	}
	n := p.typ.NumIn()
	var parts []string
	for j := p.firstArg(); j < n; j++ {
		hint := ""
		if k := j - p.firstArg(); k < len(p.params) {
			hint = p.params[k]
			if (hint == "rest" || hint == "exps") && k > 0 {
				hint = p.params[k-1]
			}
		}
		if p.typ.IsVariadic() && j == n-1 {
			s, ok := g.Gen(p.typ.In(j), depth-1, hint)
			if !ok {
				return Val{}, false
			}
			for i := 0; i < s.V.Len(); i++ {
				args = append(args, s.V.Index(i))
			}
			if s.V.Len() > 0 {
				parts = append(parts, s.Prog+"...")
			}
			continue
		}
		a, ok := g.Gen(p.typ.In(j), depth-1, hint)
		if !ok {
			return Val{}, false
		}
		args = append(args, a.V)
		parts = append(parts, a.Prog)
	}
	prog += "(" + strings.Join(parts, ", ") + ")"
	defer func() {
		if r := recover(); r != nil {
			g.Stats["derive-panic:"+p.name]++
			val, ok = Val{}, false
		}
	}()
	var out []reflect.Value
	if p.recv != nil {
		out = args[0].Method(p.method).Call(args[1:])
	} else {
		out = p.fn.Call(args)
	}
	g.Stats["call:"+p.name]++
	if g.OnCall != nil {
		owner := ""
		if p.recv != nil {
			owner = methodOwner(p.recv, p.name[strings.IndexByte(p.name, '.')+1:])
		}
		g.OnCall(p.name, owner, p.typ, p.recv != nil, args, out[0], prog)
	}
	return Val{out[0], prog}, true
}

// genFunc builds func(T) T' callbacks (ApplyIf, ApplySelectJson) from one pre-generated method call.
func (g *Gen) genFunc(t reflect.Type, depth int) (Val, bool) {
	if t.NumIn() != 1 || t.NumOut() != 1 {
		return Val{}, false
	}
	in, out := t.In(0), t.Out(0)
	type choice struct {
		m    reflect.Method
		args []reflect.Value
		prog string
	}
	var choices []reflect.Method
	for i := 0; i < in.NumMethod(); i++ {
		m := in.Method(i)
		if excludedMethod(m.Name) || m.Type.NumOut() != 1 {
			continue
		}
		o := m.Type.Out(0)
		if o == out || (o.Kind() == reflect.Struct && o.NumField() > 0 && o.Field(0).Anonymous && o.Field(0).Type == out) {
			if m.Name == "ApplyIf" || m.Name == "ApplySelectJson" {
				continue
			}
			choices = append(choices, m)
		}
	}
	if len(choices) == 0 || g.Rng.Intn(8) == 0 {
		f := reflect.MakeFunc(t, func(a []reflect.Value) []reflect.Value { return []reflect.Value{a[0]} })
		return Val{f, "func(x) { return x }"}, true
	}
	m := choices[g.Rng.Intn(len(choices))]
	var args []reflect.Value
	var parts []string
	params := registry.MethodParams[methodOwner(in, m.Name)+"."+m.Name]
	n := m.Type.NumIn()
	for j := 1; j < n; j++ {
		hint := ""
		if j-1 < len(params) {
			hint = params[j-1]
		}
		a, ok := g.Gen(m.Type.In(j), depth-1, hint)
		if !ok {
			return Val{}, false
		}
		if m.Type.IsVariadic() && j == n-1 {
			for i := 0; i < a.V.Len(); i++ {
				args = append(args, a.V.Index(i))
			}
			if a.V.Len() > 0 {
				parts = append(parts, a.Prog+"...")
			}
		} else {
			args = append(args, a.V)
			parts = append(parts, a.Prog)
		}
	}
	idx := m.Index
	f := reflect.MakeFunc(t, func(a []reflect.Value) []reflect.Value {
		r := a[0].Method(idx).Call(args)[0]
		if r.Type() != out {
			r = r.Field(0)
		}
		return []reflect.Value{r}
	})
	return Val{f, "func(x) { return x." + m.Name + "(" + strings.Join(parts, ", ") + ") }"}, true
}

// Plan is one derivation step prepared in advance: a method of the receiver type with generated arguments.
type Plan struct {
	Name string
	Prog string
	p    *producer
	args []reflect.Value
}

// PlanFor prepares a random derivation step for values of type t (nil if t has no usable method).
func (g *Gen) PlanFor(t reflect.Type, depth int) *Plan {
	var ms []*producer
	for _, p := range g.producers {
		if p.recv == t && p.cost < inf {
			ms = append(ms, p)
		}
	}
	if len(ms) == 0 {
		return nil
	}
	for attempt := 0; attempt < 6; attempt++ {
		p := ms[g.Rng.Intn(len(ms))]
		var args []reflect.Value
		var parts []string
		ok := true
		n := p.typ.NumIn()
		for j := 1; j < n && ok; j++ {
			hint := ""
			if j-1 < len(p.params) {
				hint = p.params[j-1]
			}
			a, good := g.Gen(p.typ.In(j), depth, hint)
			if !good {
				ok = false
				break
			}
			if p.typ.IsVariadic() && j == n-1 {
				for i := 0; i < a.V.Len(); i++ {
					args = append(args, a.V.Index(i))
				}
				if a.V.Len() > 0 {
					parts = append(parts, a.Prog+"...")
				}
			} else {
				args = append(args, a.V)
				parts = append(parts, a.Prog)
			}
		}
		if ok {
			m := p.name[strings.IndexByte(p.name, '.')+1:]
			return &Plan{Name: p.name, Prog: "." + m + "(" + strings.Join(parts, ", ") + ")", p: p, args: args}
		}
	}
	return nil
}

// Args are the (variadic-flattened) arguments of the prepared call; Type is the method type incl. the receiver.
func (pl *Plan) Args() []reflect.Value { return pl.args }
func (pl *Plan) Type() reflect.Type    { return pl.p.typ }

// Apply runs the prepared step on recv; ok is false when the call panics (derivation-time panic).
func (pl *Plan) Apply(recv reflect.Value) (out reflect.Value, ok bool) {
	defer func() {
		if r := recover(); r != nil {
			ok = false
		}
	}()
	return recv.Method(pl.p.method).Call(pl.args)[0], true
}

// CrossKindStrings lists strings that are drawn both as names and as cast types by the generators
func CrossKindStrings() []string {
	return append(append(append(append([]string{}, identPool...), typePool...), nearIdents...), nearTypes...)
}
