// Package dump prints the structure of a qrb value (all fields, exported or not) as an
// s-expression: the abstraction function from Go memory to the Coq value universe
// (coq/Model/Decode.v reads it).  Structs are (TypeName field ...) in declaration order, named
// non-struct types are (TypeName underlying), nil slices / pointers / interfaces are `nil`,
// slices (list ...), pointers (ptr x), strings s<hex>, integers i<dec>, bools T / F,
// float64 f<hex of FormatFloat(f,'f',-1,64)>, values of type `any` a<pool id>.
package dump

import (
	"encoding/hex"
	"fmt"
	"reflect"
	"strconv"
	"strings"
	"unsafe"
)

type Dumper struct {
	// AnyID maps a value stored in an `any`-typed field to its pool id.
	AnyID func(v any) int
	// skipSelf: while set, the embedded ExpBase field of the outermost structs is not printed
	skipSelf bool
}

// ValueNoSelf dumps x without its own self handle (the embedded ExpBase of the value itself, also
// through embedded type-state structs); nested values are printed in full.
func (d *Dumper) ValueNoSelf(x any) string {
	d.skipSelf = true
	defer func() { d.skipSelf = false }()
	return d.Value(x)
}

func typeName(t reflect.Type) string {
	n := t.Name()
	if i := strings.IndexByte(n, '['); i >= 0 {
		n = n[:i]
	}
	return n
}

func isQrbType(t reflect.Type) bool {
	return strings.HasPrefix(t.PkgPath(), "github.com/networkteam/qrb")
}

// access clears the read-only flag reflect puts on values reached through unexported fields.
func access(v reflect.Value) reflect.Value {
	if !v.CanAddr() {
		panic("dump: value not addressable")
	}
	return reflect.NewAt(v.Type(), unsafe.Pointer(v.UnsafeAddr())).Elem()
}

// Value dumps x.
func (d *Dumper) Value(x any) string {
	var sb strings.Builder
	if x == nil {
		return "nil"
	}
	v := reflect.ValueOf(x)
	p := reflect.New(v.Type()).Elem()
	p.Set(v)
	d.dump(&sb, p)
	return sb.String()
}

func (d *Dumper) dump(sb *strings.Builder, v reflect.Value) {
	t := v.Type()
	named := t.Name() != "" && isQrbType(t) && t.Kind() != reflect.Struct && t.Kind() != reflect.Interface
	if named {
		sb.WriteString("(" + typeName(t) + " ")
		defer sb.WriteString(")")
	}
	switch t.Kind() {
	case reflect.Interface:
		if t.NumMethod() == 0 {
			if v.IsNil() {
				fmt.Fprintf(sb, "a%d", d.AnyID(nil))
			} else {
				fmt.Fprintf(sb, "a%d", d.AnyID(v.Interface()))
			}
			return
		}
		if v.IsNil() {
			sb.WriteString("nil")
			return
		}
		e := v.Elem()
		p := reflect.New(e.Type()).Elem()
		p.Set(e)
		d.dump(sb, p)
	case reflect.Struct:
		sb.WriteString("(" + typeName(t))
		skipping := d.skipSelf
		for i := 0; i < t.NumField(); i++ {
			sb.WriteString(" ")
			f := t.Field(i)
			if skipping && f.Anonymous && f.Type.Name() == "ExpBase" {
				sb.WriteString("(self)")
				continue
			}
			// only embedded structs continue the "outermost value"
			d.skipSelf = skipping && f.Anonymous && f.Type.Kind() == reflect.Struct
			d.dump(sb, access(v.Field(i)))
		}
		d.skipSelf = false
		sb.WriteString(")")
	case reflect.Slice:
		if v.IsNil() {
			sb.WriteString("nil")
			return
		}
		sb.WriteString("(list")
		for i := 0; i < v.Len(); i++ {
			sb.WriteString(" ")
			d.dump(sb, access(v.Index(i)))
		}
		sb.WriteString(")")
	case reflect.Ptr:
		if v.IsNil() {
			sb.WriteString("nil")
			return
		}
		sb.WriteString("(ptr ")
		d.dump(sb, access(v.Elem()))
		sb.WriteString(")")
	case reflect.String:
		sb.WriteString("s" + hex.EncodeToString([]byte(v.String())))
	case reflect.Bool:
		if v.Bool() {
			sb.WriteString("T")
		} else {
			sb.WriteString("F")
		}
	case reflect.Int, reflect.Int8, reflect.Int16, reflect.Int32, reflect.Int64:
		sb.WriteString("i" + strconv.FormatInt(v.Int(), 10))
	case reflect.Float64:
		sb.WriteString("f" + hex.EncodeToString([]byte(strconv.FormatFloat(v.Float(), 'f', -1, 64))))
	default:
		sb.WriteString("(unsupported-" + t.Kind().String() + ")")
	}
}
