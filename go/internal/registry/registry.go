// Package registry lists the exported API of the qrb tree under test (generated part in
// registry_gen.go, rewritten by qrb2coq on every run).
package registry

import "reflect"

type Func struct {
	Name   string
	Fn     reflect.Value
	Params []string
}
